package main

// E-LCK: lock discipline and probe typestate of generator.Formatters (property C20).

import (
	"fmt"
	"go/constant"
	"go/token"
	"go/types"
	"sort"
	"strings"

	"golang.org/x/tools/go/ssa"
)

func init() { register("C20", "proof", checkC20) }

type lckWorld struct {
	w        *World
	r        *Result
	fmtT     *types.Named // generator.Formatters
	st       *types.Struct
	lockIdx  int
	flagIdx  map[int]string // field index -> name, for *bool fields
	funcs    []*ssa.Function
	entry    map[*ssa.Function]bool // lock must be held on entry (callee summary)
	unlocker map[*ssa.Function]bool // function literal used only as `defer func() { ...Unlock() }()`: releases the mutex on all its paths
	accesses int
}

func checkC20(w *World, r *Result) {
	r.Explanation = "Decides, on every control-flow path of package generator (all schedules, all installed/missing/failing tool combinations, the tool being abstracted to an opaque exec call returning nil or an error): LCK-1 every access to a probe flag of Formatters happens with the cache mutex held; LCK-2 every Lock is released on all exits and never re-acquired while held; LCK-3 the external probe is control-dependent on the flag being nil and is followed on all paths by a store of a non-nil pointer into the same field, the cached boolean is (probe error == nil) and is what the probe function returns; LCK-4 the probe functions use pairwise distinct fields and FormatFile calls each exactly once, each run command being named in its probe's arguments; LCK-5 in FormatFile, per path: at most one probe; probe true => exactly one formatter run whose error is the returned value; probe false/no probe => no process/file-system call and nil is returned; LCK-6 Formatters is never copied and only has pointer-receiver methods; LCK-7 cmd shares one package-level cache and calls FormatFile once per goroutine; LCK-8 a goroutine started by the production code stores into a captured variable only when no other goroutine can touch that cell (so the error of a formatter run is not overwritten by another run). LCK-9 a goroutine that signals a sync.WaitGroup calls Done on every path on which it returns (else the caller waits forever and the error is never reported). Does not decide: races inside the external tools on the file itself, nor saveOutputs turning an error into a goroutine panic."
	r.Rules = []string{"LCK-1 guarded-by", "LCK-2 lock pairing", "LCK-3 probe typestate", "LCK-4 bijection", "LCK-5 FormatFile paths", "LCK-6 no copies", "LCK-7 sharing in cmd", "LCK-8 goroutine writes", "LCK-9 WaitGroup.Done on every return"}
	r.TrustedBase = []string{"go/ssa CFG construction (x/tools v0.29.0)", "Go memory model for sync.Mutex", "(*exec.Cmd).Run treated as an opaque call returning an error", "package-level visibility of the unexported Formatters fields", "this checker (gmverif lck.go)"}
	r.Assumptions = []string{"the external tool is abstracted to: Run returns nil or non-nil", "no reflection/unsafe access to Formatters (checked: package generator imports neither)"}

	lw := &lckWorld{w: w, r: r, flagIdx: map[int]string{}, entry: map[*ssa.Function]bool{}}
	named, ok := w.TypeOf("generator", "Formatters").(*types.Named)
	if !ok {
		Undecided("generator.Formatters is not a named type")
	}
	lw.fmtT = named
	st, ok := named.Underlying().(*types.Struct)
	if !ok {
		Undecided("generator.Formatters is not a struct")
	}
	lw.st = st
	lw.lockIdx = -1
	for i := 0; i < st.NumFields(); i++ {
		f := st.Field(i)
		if f.Type().String() == "sync.Mutex" {
			if lw.lockIdx >= 0 {
				Undecided("Formatters has several mutexes")
			}
			lw.lockIdx = i
			continue
		}
		// an array of flags (`working [Psql+1]*bool`) is one cell per element
		if at, isArr := f.Type().Underlying().(*types.Array); isArr {
			for k := int64(0); k < at.Len(); k++ {
				lw.flagIdx[i*1000+int(k)+1] = fmt.Sprintf("%s[%d]", f.Name(), k)
			}
			continue
		}
		lw.flagIdx[i] = f.Name()
	}
	if lw.lockIdx < 0 {
		Undecided("Formatters has no sync.Mutex field")
	}
	if len(lw.flagIdx) == 0 {
		Undecided("Formatters has no probe flag field")
	}
	r.note("waitgroup_goroutines", wgDoneRule(w, r, nil)) // zero is fine: the rule binds whoever uses a WaitGroup
	genPkg := w.ByRel["generator"]
	for _, imp := range genPkg.Types.Imports() {
		if imp.Path() == "unsafe" || imp.Path() == "reflect" {
			r.bad("LCK-1", "generator.<package>", "import "+imp.Path(), "generator", "package generator imports "+imp.Path()+": field accesses cannot be enumerated soundly")
		}
	}
	for _, f := range w.ProdSSAFuncs() {
		lw.funcs = append(lw.funcs, f)
	}
	lw.guardedBy()
	lw.probes()
	lw.formatFile()
	lw.noCopies()
	lw.sharing()
	lw.goroutineWrites()
	r.note("flag_fields", len(lw.flagIdx))
	r.note("flag_accesses", lw.accesses)
	if lw.accesses < 2*len(lw.flagIdx) {
		Undecided("only %d accesses to the %d probe flags were found: the rule no longer matches the code", lw.accesses, len(lw.flagIdx))
	}
}

// isFmtPtr reports whether t is *generator.Formatters.
func (lw *lckWorld) isFmtPtr(t types.Type) bool {
	p, ok := t.Underlying().(*types.Pointer)
	if !ok {
		return false
	}
	n, ok := p.Elem().(*types.Named)
	return ok && n.Origin() == lw.fmtT.Origin()
}

// cellRef names one flag cell of Formatters: a field (Field = its index), or one element of a field that is an array
// of flags (Field = index*1000 + element + 1).
type cellRef struct{ Field int }

func (lw *lckWorld) fieldAddr(v ssa.Value) (*cellRef, bool) {
	if ia, ok := v.(*ssa.IndexAddr); ok {
		if fa, ok := ia.X.(*ssa.FieldAddr); ok && lw.isFmtPtr(fa.X.Type()) {
			if _, isArr := lw.st.Field(fa.Field).Type().Underlying().(*types.Array); isArr {
				k, isConst := ia.Index.(*ssa.Const)
				if !isConst || k.Value == nil {
					Undecided("the flag array %s is indexed by a value that is not a constant: the cells cannot be told apart", lw.st.Field(fa.Field).Name())
				}
				n, _ := constant.Int64Val(k.Value)
				return &cellRef{fa.Field*1000 + int(n) + 1}, true
			}
		}
		return nil, false
	}
	fa, ok := v.(*ssa.FieldAddr)
	if !ok || !lw.isFmtPtr(fa.X.Type()) {
		return nil, false
	}
	if _, isArr := lw.st.Field(fa.Field).Type().Underlying().(*types.Array); isArr {
		return nil, false // the address of the whole array: its cells are reached through IndexAddr
	}
	return &cellRef{fa.Field}, true
}

// cellType: the type of a flag cell.
func (lw *lckWorld) cellType(key int) types.Type {
	if key >= 1000 {
		if at, ok := lw.st.Field(key / 1000).Type().Underlying().(*types.Array); ok {
			return at.Elem()
		}
	}
	return lw.st.Field(key).Type()
}

// paramConfined: the callee uses its i-th parameter (a pointer) only to address fields, load and store through it.
func paramConfined(callee *ssa.Function, i int) bool {
	if callee == nil || len(callee.Blocks) == 0 || i >= len(callee.Params) {
		return false
	}
	var confined func(v ssa.Value, depth int) bool
	confined = func(v ssa.Value, depth int) bool {
		refs := v.Referrers()
		if refs == nil || depth > 3 {
			return false
		}
		for _, ref := range *refs {
			switch x := ref.(type) {
			case *ssa.FieldAddr:
				if !confined(x, depth+1) {
					return false
				}
			case *ssa.UnOp:
				if x.Op != token.MUL {
					return false
				}
			case *ssa.Store:
				if x.Val == v {
					return false // the address itself is stored somewhere
				}
			case *ssa.DebugRef:
			default:
				return false
			}
		}
		return true
	}
	return confined(callee.Params[i], 0)
}

// flagAddr resolves an address to a probe flag of Formatters: the field itself (sub == -1), or a sub-field of a flag
// that is a small struct (`fmts.flag.probed`).
func (lw *lckWorld) flagAddr(v ssa.Value) (field, sub int, ok bool) {
	if c, ok := lw.fieldAddr(v); ok {
		return c.Field, -1, true
	}
	fa, isFA := v.(*ssa.FieldAddr)
	if !isFA {
		return 0, 0, false
	}
	if c, ok := lw.fieldAddr(fa.X); ok {
		return c.Field, fa.Field, true
	}
	return 0, 0, false
}

// structFlag: the flag field is a struct value (status bits) rather than a pointer.
func (lw *lckWorld) structFlag(field int) bool {
	_, ok := lw.cellType(field).Underlying().(*types.Struct)
	return ok
}

// lockCall classifies a call as Lock/Unlock on the Formatters mutex.
func (lw *lckWorld) lockCall(c *ssa.CallCommon) string {
	callee := c.StaticCallee()
	if callee == nil || callee.Object() == nil {
		return ""
	}
	full := callee.Object().(*types.Func).FullName()
	if full != "(*sync.Mutex).Lock" && full != "(*sync.Mutex).Unlock" && full != "(*sync.Mutex).TryLock" {
		return ""
	}
	if len(c.Args) == 0 {
		return ""
	}
	fa, ok := lw.fieldAddr(c.Args[0])
	if !ok || fa.Field != lw.lockIdx {
		return ""
	}
	return callee.Name()
}

type lockState struct {
	must, may bool // lock held on all / some paths
	deferUnl  bool // a deferred Unlock is registered on all paths
	reached   bool
}

func meet(a, b lockState) lockState {
	if !a.reached {
		return b
	}
	if !b.reached {
		return a
	}
	return lockState{must: a.must && b.must, may: a.may || b.may, deferUnl: a.deferUnl && b.deferUnl, reached: true}
}

// flow runs the lock-state dataflow over fn; visit is called for each instruction with the state before it.
func (lw *lckWorld) flow(fn *ssa.Function, entryHeld bool, visit func(in ssa.Instruction, s lockState)) {
	in := make([]lockState, len(fn.Blocks))
	out := make([]lockState, len(fn.Blocks))
	in[0] = lockState{must: entryHeld, may: entryHeld, reached: true}
	transfer := func(b *ssa.BasicBlock, s lockState, v func(ssa.Instruction, lockState)) lockState {
		for _, ins := range b.Instrs {
			if v != nil {
				v(ins, s)
			}
			switch x := ins.(type) {
			case *ssa.Call:
				switch lw.lockCall(&x.Call) {
				case "Lock":
					s.must, s.may = true, true
				case "Unlock":
					s.must, s.may = false, false
				case "TryLock":
					s.must = false
					s.may = true
				}
			case *ssa.Defer:
				if lw.lockCall(&x.Call) == "Unlock" || lw.unlocker[deferredLit(x)] {
					s.deferUnl = true
				}
			}
		}
		return s
	}
	changed := true
	for iter := 0; changed && iter < 100; iter++ {
		changed = false
		for i, b := range fn.Blocks {
			s := in[i]
			if i != 0 {
				s = lockState{}
				for _, p := range b.Preds {
					s = meet(s, out[p.Index])
				}
			}
			if s != in[i] {
				in[i] = s
				changed = true
			}
			o := transfer(b, s, nil)
			if o != out[i] {
				out[i] = o
				changed = true
			}
		}
	}
	for i, b := range fn.Blocks {
		if in[i].reached {
			transfer(b, in[i], visit)
		}
	}
}

func fname(w *World, f *ssa.Function) string {
	if f.Object() != nil {
		if fo, ok := f.Object().(*types.Func); ok {
			return w.QualName(fo)
		}
	}
	root := f
	for root.Parent() != nil {
		root = root.Parent()
	}
	if root.Object() != nil {
		if fo, ok := root.Object().(*types.Func); ok {
			return w.QualName(fo) + "$" + strings.TrimPrefix(f.Name(), root.Name()+"$")
		}
	}
	return f.String()
}

// guardedBy implements LCK-1 and LCK-2.
func (lw *lckWorld) guardedBy() {
	w, r := lw.w, lw.r
	// functions that touch flags or the lock
	touch := map[*ssa.Function]bool{}
	for _, f := range lw.funcs {
		for _, b := range f.Blocks {
			for _, ins := range b.Instrs {
				if fa, ok := ins.(*ssa.FieldAddr); ok && lw.isFmtPtr(fa.X.Type()) {
					touch[f] = true
				}
			}
		}
	}
	if len(touch) == 0 {
		Undecided("no function accesses the fields of Formatters")
	}
	// callee summaries: an unexported, never address-taken function whose every static call site holds the lock
	// may assume the lock on entry. Fixpoint from optimistic assumption.
	callSites := map[*ssa.Function][]*ssa.Call{}
	addrTaken := map[*ssa.Function]bool{}
	for _, f := range lw.funcs {
		for _, b := range f.Blocks {
			for _, ins := range b.Instrs {
				if c, ok := ins.(*ssa.Call); ok {
					if callee := c.Call.StaticCallee(); callee != nil && touch[callee] {
						callSites[callee] = append(callSites[callee], c)
					}
				}
				var ops []*ssa.Value
				for _, op := range ins.Operands(ops) {
					if fn, ok := (*op).(*ssa.Function); ok && touch[fn] {
						if c, isCall := ins.(ssa.CallInstruction); isCall && c.Common().Value == fn {
							if _, isPlainCall := ins.(*ssa.Call); isPlainCall {
								continue
							}
						}
						addrTaken[fn] = true
					}
				}
			}
		}
	}
	for f := range touch {
		exported := f.Object() != nil && f.Object().Exported()
		lw.entry[f] = !exported && !addrTaken[f] && len(callSites[f]) > 0 && f.Parent() == nil
	}
	for iter := 0; iter < 10; iter++ {
		changed := false
		for f := range touch {
			if !lw.entry[f] {
				continue
			}
			held := true
			for _, site := range callSites[f] {
				caller := site.Parent()
				siteHeld := false
				lw.flow(caller, lw.entry[caller], func(in ssa.Instruction, s lockState) {
					if in == ssa.Instruction(site) {
						siteHeld = s.must
					}
				})
				if !siteHeld {
					held = false
				}
			}
			if !held {
				lw.entry[f] = false
				changed = true
			}
		}
		if !changed {
			break
		}
	}
	// `defer func() { ...; fmts.lock.Unlock() }()`: a function literal whose only use is that defer and which,
	// entered with the mutex held, releases it on every path and never locks, is a deferred Unlock; it is
	// analysed with the mutex held on entry (it runs at the exits of its parent, where LCK-2 requires exactly that).
	lw.unlocker = map[*ssa.Function]bool{}
	for _, f := range lw.funcs {
		for _, b := range f.Blocks {
			for _, ins := range b.Instrs {
				d, ok := ins.(*ssa.Defer)
				if !ok {
					continue
				}
				lit := deferredLit(d)
				if lit == nil || !touch[lit] {
					continue
				}
				if mc, ok := d.Call.Value.(*ssa.MakeClosure); ok && (mc.Referrers() == nil || len(*mc.Referrers()) != 1) {
					continue
				}
				releases, locks := true, false
				nret := 0
				lw.flow(lit, true, func(in ssa.Instruction, s lockState) {
					switch x := in.(type) {
					case *ssa.Return:
						nret++
						if s.may {
							releases = false
						}
					case *ssa.Call:
						if k := lw.lockCall(&x.Call); k == "Lock" || k == "TryLock" {
							locks = true
						}
					}
				})
				if releases && !locks && nret > 0 {
					lw.unlocker[lit] = true
					lw.entry[lit] = true
				}
			}
		}
	}
	var fs []*ssa.Function
	for f := range touch {
		fs = append(fs, f)
	}
	sort.Slice(fs, func(i, j int) bool { return fs[i].Pos() < fs[j].Pos() })
	for _, f := range fs {
		name := fname(w, f)
		// flag pointers loaded from a flag field
		flagPtr := map[ssa.Value]string{}
		for _, b := range f.Blocks {
			for _, ins := range b.Instrs {
				if u, ok := ins.(*ssa.UnOp); ok && u.Op == token.MUL {
					if fa, ok := lw.fieldAddr(u.X); ok && fa.Field != lw.lockIdx {
						flagPtr[u] = lw.flagIdx[fa.Field]
					}
				}
			}
		}
		lw.flow(f, lw.entry[f], func(in ssa.Instruction, s lockState) {
			pos := w.Pos(in.Pos())
			if !in.Pos().IsValid() {
				pos = w.Pos(f.Pos())
			}
			check := func(kind, field string) {
				lw.accesses++
				c := fmt.Sprintf("%s %s", kind, field)
				if s.must {
					how := "mutex held on every path from entry"
					if lw.entry[f] {
						how += " (entry summary: every caller holds it)"
					}
					r.ok("LCK-1", name, c, pos, how, true)
				} else {
					r.bad("LCK-1", name, c, pos, "access to a probe flag at a point where the cache mutex is not held on every path from function entry")
				}
			}
			switch x := in.(type) {
			case *ssa.UnOp:
				if x.Op != token.MUL {
					return
				}
				if fa, ok := lw.fieldAddr(x.X); ok && fa.Field != lw.lockIdx {
					check("load", lw.flagIdx[fa.Field])
				} else if fld, ok := flagPtr[x.X]; ok {
					check("load-through", fld)
				} else if fi, sub, ok := lw.flagAddr(x.X); ok && sub >= 0 && fi != lw.lockIdx {
					check("load", lw.flagIdx[fi]) // a status bit of a struct-valued flag
				}
			case *ssa.Store:
				if fa, ok := lw.fieldAddr(x.Addr); ok && fa.Field != lw.lockIdx {
					check("store", lw.flagIdx[fa.Field])
				} else if fld, ok := flagPtr[x.Addr]; ok {
					check("store-through", fld)
				} else if fi, sub, ok := lw.flagAddr(x.Addr); ok && sub >= 0 && fi != lw.lockIdx {
					check("store", lw.flagIdx[fi])
				}
				if fa, ok := lw.fieldAddr(x.Val); ok && fa.Field != lw.lockIdx {
					r.bad("LCK-1", name, "escape "+lw.flagIdx[fa.Field], pos, "the address of the flag is stored elsewhere and may be used without the mutex")
				}
				if fld, ok := flagPtr[x.Val]; ok {
					r.bad("LCK-1", name, "escape "+fld, pos, "the flag pointer is stored elsewhere and may be dereferenced without the mutex")
				}
			case *ssa.Return:
				for _, res := range x.Results {
					if fld, ok := flagPtr[res]; ok {
						r.bad("LCK-1", name, "escape "+fld, pos, "the flag pointer is returned and may be dereferenced without the mutex")
					}
				}
				if lw.entry[f] {
					return
				}
				c := "return"
				if s.may && !s.deferUnl {
					r.bad("LCK-2", name, c, pos, "a path reaches this return with the cache mutex held and no deferred Unlock")
				} else {
					r.ok("LCK-2", name, c, pos, "mutex released (or deferred Unlock registered) on every path to this exit", true)
				}
			case *ssa.Call:
				for ai, a := range x.Call.Args {
					if fa, ok := lw.fieldAddr(a); ok && fa.Field != lw.lockIdx {
						callee := x.Call.StaticCallee()
						switch {
						case callee != nil && touch[callee] && lw.entry[callee]:
						case callee != nil && s.must && paramConfined(callee, ai):
							lw.accesses++
							r.ok("LCK-1", name, "flag address passed to "+callee.Name(), pos, "the mutex is held across the call and the callee only reads and writes through the parameter (it neither keeps nor passes on the address)", true)
						default:
							r.bad("LCK-1", name, "escape "+lw.flagIdx[fa.Field], pos, "the address of the flag is handed to a call that is not known to run under the mutex, or that may keep it")
						}
					}
				}
				switch lw.lockCall(&x.Call) {
				case "Lock":
					if s.may {
						r.bad("LCK-2", name, "Lock", pos, "Lock while the mutex may already be held by this goroutine (self-deadlock)")
					} else {
						r.ok("LCK-2", name, "Lock", pos, "mutex not held before Lock", true)
					}
				case "Unlock":
					if !s.must {
						r.bad("LCK-2", name, "Unlock", pos, "Unlock on a path where the mutex is not held")
					} else {
						r.ok("LCK-2", name, "Unlock", pos, "mutex held before Unlock", true)
					}
				case "TryLock":
					r.bad("LCK-2", name, "TryLock", pos, "TryLock is outside the recognised discipline")
				default:
					for _, a := range x.Call.Args {
						if fld, ok := flagPtr[a]; ok {
							r.bad("LCK-1", name, "escape "+fld, pos, "the flag pointer is passed to a call and may be dereferenced without the mutex")
						}
						if fa, ok := lw.fieldAddr(a); ok && fa.Field != lw.lockIdx {
							r.bad("LCK-1", name, "escape &"+lw.flagIdx[fa.Field], pos, "the address of a flag field is passed to a call")
						}
					}
				}
			case *ssa.Defer:
				if lw.lockCall(&x.Call) == "Unlock" || lw.unlocker[deferredLit(x)] {
					if !s.must {
						r.bad("LCK-2", name, "defer Unlock", pos, "deferred Unlock registered on a path where the mutex is not held")
					} else {
						r.ok("LCK-2", name, "defer Unlock", pos, "deferred Unlock registered with the mutex held", true)
					}
				}
			case *ssa.Go:
				if lw.lockCall(&x.Call) != "" {
					r.bad("LCK-2", name, "go Lock/Unlock", pos, "lock operation in a new goroutine")
				}
			case *ssa.MakeClosure:
				for _, bnd := range x.Bindings {
					if _, ok := flagPtr[bnd]; ok {
						r.bad("LCK-1", name, "escape via closure", pos, "flag pointer captured by a closure")
					}
				}
			}
		})
	}
}

// deferredLit: the function literal called by `defer func() {...}()`, or nil.
func deferredLit(d *ssa.Defer) *ssa.Function {
	if len(d.Call.Args) != 0 || d.Call.IsInvoke() {
		return nil
	}
	switch v := d.Call.Value.(type) {
	case *ssa.MakeClosure:
		if fn, ok := v.Fn.(*ssa.Function); ok && fn.Parent() != nil {
			return fn
		}
	case *ssa.Function:
		if v.Parent() != nil {
			return v
		}
	}
	return nil
}

func isExecRun(c *ssa.CallCommon) bool {
	callee := c.StaticCallee()
	if callee == nil || callee.Object() == nil {
		return false
	}
	switch callee.Object().(*types.Func).FullName() {
	case "(*os/exec.Cmd).Run", "(*os/exec.Cmd).Start", "(*os/exec.Cmd).Output", "(*os/exec.Cmd).CombinedOutput", "(*os/exec.Cmd).Wait":
		return true
	}
	return false
}

// cmdArgs returns the constant string arguments of the exec.Command / exec.LookPath call feeding v.
func cmdArgs(v ssa.Value) []string {
	c, ok := v.(*ssa.Call)
	if !ok {
		return nil
	}
	callee := c.Call.StaticCallee()
	if callee == nil || callee.Object() == nil {
		return nil
	}
	full := callee.Object().(*types.Func).FullName()
	if full != "os/exec.Command" && full != "os/exec.LookPath" && full != "os/exec.CommandContext" {
		return nil
	}
	var out []string
	var collect func(v ssa.Value)
	collect = func(v ssa.Value) {
		switch x := v.(type) {
		case *ssa.Const:
			if x.Value != nil && x.Value.Kind() == constant.String {
				out = append(out, constant.StringVal(x.Value))
			}
		case *ssa.Slice:
			// variadic: slice of an alloc'd array; find stores into it
			if al, ok := x.X.(*ssa.Alloc); ok {
				type st struct {
					idx int64
					s   string
				}
				var elems []st
				for _, ref := range *al.Referrers() {
					if ia, ok := ref.(*ssa.IndexAddr); ok {
						idx := int64(-1)
						if ci, ok := ia.Index.(*ssa.Const); ok {
							idx, _ = constant.Int64Val(ci.Value)
						}
						for _, r2 := range *ia.Referrers() {
							if s, ok := r2.(*ssa.Store); ok {
								if cs, ok := s.Val.(*ssa.Const); ok && cs.Value != nil && cs.Value.Kind() == constant.String {
									elems = append(elems, st{idx, constant.StringVal(cs.Value)})
								}
							}
						}
					}
				}
				sort.Slice(elems, func(i, j int) bool { return elems[i].idx < elems[j].idx })
				for _, e := range elems {
					out = append(out, e.s)
				}
			}
		}
	}
	for _, a := range c.Call.Args {
		collect(a)
	}
	return out
}

// probeWrapper recognises a helper that runs one external command built from its own parameters and returns whether
// it succeeded: `func works(label, name string, args ...string) bool { err := exec.Command(name, args...).Run(); …;
// return err == nil }`. It returns the indexes of the parameters that make up the command line. A call of such a
// helper is, to the probe rules, an external probe whose result already is (error == nil).
func probeWrapper(fn *ssa.Function) ([]int, bool) {
	if fn == nil || len(fn.Blocks) == 0 || fn.Signature.Recv() != nil {
		return nil, false
	}
	if res := fn.Signature.Results(); res.Len() != 1 {
		return nil, false
	} else if b, ok := res.At(0).Type().Underlying().(*types.Basic); !ok || b.Kind() != types.Bool {
		return nil, false
	}
	var run *ssa.Call
	for _, b := range fn.Blocks {
		for _, ins := range b.Instrs {
			if c, ok := ins.(*ssa.Call); ok && isExecRun(&c.Call) {
				if run != nil {
					return nil, false
				}
				run = c
			}
		}
	}
	if run == nil || len(run.Call.Args) == 0 {
		return nil, false
	}
	cmd, ok := run.Call.Args[0].(*ssa.Call)
	if !ok || cmd.Call.StaticCallee() == nil || cmd.Call.StaticCallee().Object() == nil {
		return nil, false
	}
	if full := cmd.Call.StaticCallee().Object().(*types.Func).FullName(); full != "os/exec.Command" {
		return nil, false
	}
	var idx []int
	for _, a := range cmd.Call.Args {
		p, ok := a.(*ssa.Parameter)
		if !ok {
			return nil, false
		}
		for i, fp := range fn.Params {
			if fp == p {
				idx = append(idx, i)
			}
		}
	}
	// every return yields (run error == nil)
	for _, b := range fn.Blocks {
		for _, ins := range b.Instrs {
			ret, ok := ins.(*ssa.Return)
			if !ok {
				continue
			}
			if len(ret.Results) != 1 {
				return nil, false
			}
			bin, ok := ret.Results[0].(*ssa.BinOp)
			if !ok || bin.Op != token.EQL {
				return nil, false
			}
			var other ssa.Value
			if k, ok := bin.Y.(*ssa.Const); ok && k.IsNil() {
				other = bin.X
			} else if k, ok := bin.X.(*ssa.Const); ok && k.IsNil() {
				other = bin.Y
			}
			if other != ssa.Value(run) {
				return nil, false
			}
		}
	}
	return idx, true
}

// wrapperCmd: the constant strings a call passes for the command-line parameters of a probe wrapper.
func wrapperCmd(c *ssa.Call, idx []int) []string {
	var out []string
	for _, i := range idx {
		if i >= len(c.Call.Args) {
			continue
		}
		switch x := c.Call.Args[i].(type) {
		case *ssa.Const:
			if x.Value != nil && x.Value.Kind() == constant.String {
				out = append(out, constant.StringVal(x.Value))
			}
		case *ssa.Slice:
			if al, ok := x.X.(*ssa.Alloc); ok {
				type st struct {
					idx int64
					s   string
				}
				var elems []st
				for _, ref := range *al.Referrers() {
					if ia, ok := ref.(*ssa.IndexAddr); ok {
						k := int64(-1)
						if ci, ok := ia.Index.(*ssa.Const); ok {
							k, _ = constant.Int64Val(ci.Value)
						}
						for _, r2 := range *ia.Referrers() {
							if s, ok := r2.(*ssa.Store); ok {
								if cs, ok := s.Val.(*ssa.Const); ok && cs.Value != nil && cs.Value.Kind() == constant.String {
									elems = append(elems, st{k, constant.StringVal(cs.Value)})
								}
							}
						}
					}
				}
				sort.Slice(elems, func(i, j int) bool { return elems[i].idx < elems[j].idx })
				for _, e := range elems {
					out = append(out, e.s)
				}
			}
		}
	}
	return out
}

type probeInfo struct {
	fn       *ssa.Function
	field    int
	armedSub int // struct-form flag: the boolean sub-field whose false value arms the probe (-1: pointer form)
	probeCmd []string
}

var lckProbes map[*ssa.Function]*probeInfo

// probes implements LCK-3 and the field half of LCK-4.
func (lw *lckWorld) probes() {
	w, r := lw.w, lw.r
	lckProbes = map[*ssa.Function]*probeInfo{}
	byField := map[int][]*ssa.Function{}
	for _, f := range lw.funcs {
		stores := map[int]bool{}
		reads := map[int]bool{}
		for _, b := range f.Blocks {
			for _, ins := range b.Instrs {
				switch x := ins.(type) {
				case *ssa.Store:
					if fld, _, ok := lw.flagAddr(x.Addr); ok && fld != lw.lockIdx && lw.structFlag(fld) {
						stores[fld] = true // what is stored is judged in probeTypestate, once the armed bit is known
					} else if fa, ok := lw.fieldAddr(x.Addr); ok && fa.Field != lw.lockIdx {
						stores[fa.Field] = true
						name := fname(w, f)
						c := "store " + lw.flagIdx[fa.Field]
						if _, isAlloc := x.Val.(*ssa.Alloc); isAlloc {
							r.ok("LCK-3", name, c+" non-nil", w.Pos(x.Pos()), "stored value is a fresh allocation (never nil): the flag is never reset", true)
						} else {
							r.bad("LCK-3", name, c+" non-nil", w.Pos(x.Pos()), "a value that is not a fresh allocation is stored into the flag: it may be nil and re-arm the probe")
						}
					}
				case *ssa.UnOp:
					if fld, _, ok := lw.flagAddr(x.X); ok && x.Op == token.MUL && fld != lw.lockIdx {
						reads[fld] = true
					}
				}
			}
		}
		if len(stores) == 0 {
			continue
		}
		name := fname(w, f)
		if len(stores) != 1 {
			r.bad("LCK-4", name, "fields stored", w.Pos(f.Pos()), fmt.Sprintf("a probe function stores %d different flag fields", len(stores)))
			continue
		}
		var field int
		for k := range stores {
			field = k
		}
		for k := range reads {
			if k != field {
				r.bad("LCK-4", name, "reads "+lw.flagIdx[k]+" stores "+lw.flagIdx[field], w.Pos(f.Pos()), "a probe function reads a flag other than the one it sets")
			}
		}
		pi := &probeInfo{fn: f, field: field, armedSub: -1}
		lckProbes[f] = pi
		byField[field] = append(byField[field], f)
		lw.probeTypestate(pi)
	}
	if len(lckProbes) == 0 {
		Undecided("no probe function (a function storing a Formatters flag) found")
	}
	var fields []int
	for k := range lw.flagIdx {
		fields = append(fields, k)
	}
	sort.Ints(fields)
	for _, k := range fields {
		fs := byField[k]
		c := "field " + lw.flagIdx[k]
		switch len(fs) {
		case 1:
			r.ok("LCK-4", fname(w, fs[0]), c, w.Pos(fs[0].Pos()), "exactly one probe function owns this flag", true)
		case 0:
			r.warn("flag field %s has no probe function", lw.flagIdx[k])
		default:
			r.bad("LCK-4", fname(w, fs[1]), c, w.Pos(fs[1].Pos()), "two probe functions share one flag field: one tool's result answers for the other")
		}
	}
}

func (lw *lckWorld) probeTypestate(pi *probeInfo) {
	w, r := lw.w, lw.r
	f := pi.fn
	name := fname(w, f)
	fld := lw.flagIdx[pi.field]
	dom := func(a, b *ssa.BasicBlock) bool { return a.Dominates(b) }
	// nil-test blocks: If on (load field) == nil
	type guard struct{ tblock *ssa.BasicBlock }
	var guards []guard
	for _, b := range f.Blocks {
		if len(b.Instrs) == 0 {
			continue
		}
		iff, ok := b.Instrs[len(b.Instrs)-1].(*ssa.If)
		if !ok {
			continue
		}
		if lw.structFlag(pi.field) {
			// `if !flag.probed {probe}`: the armed edge is the one on which the loaded bit is false
			v, armedOnTrue := iff.Cond, false
			for {
				if u, ok := v.(*ssa.UnOp); ok && u.Op == token.NOT {
					v, armedOnTrue = u.X, !armedOnTrue
					continue
				}
				if bo, ok := v.(*ssa.BinOp); ok && (bo.Op == token.EQL || bo.Op == token.NEQ) {
					if k, ok := bo.Y.(*ssa.Const); ok && k.Value != nil && k.Value.Kind() == constant.Bool {
						if constant.BoolVal(k.Value) == (bo.Op == token.NEQ) { // x == false, x != true
							armedOnTrue = !armedOnTrue
						}
						v = bo.X
						continue
					}
				}
				break
			}
			ld, ok := v.(*ssa.UnOp)
			if !ok || ld.Op != token.MUL {
				continue
			}
			fld, sub, ok := lw.flagAddr(ld.X)
			if !ok || fld != pi.field || sub < 0 {
				continue
			}
			if pi.armedSub >= 0 && pi.armedSub != sub {
				continue // a second bit is tested: only the first one found is the armed bit
			}
			pi.armedSub = sub
			if armedOnTrue {
				guards = append(guards, guard{b.Succs[0]})
			} else {
				guards = append(guards, guard{b.Succs[1]})
			}
			continue
		}
		bin, ok := iff.Cond.(*ssa.BinOp)
		if !ok || (bin.Op != token.EQL && bin.Op != token.NEQ) {
			continue
		}
		var other ssa.Value
		if c, ok := bin.Y.(*ssa.Const); ok && c.IsNil() {
			other = bin.X
		} else if c, ok := bin.X.(*ssa.Const); ok && c.IsNil() {
			other = bin.Y
		} else {
			continue
		}
		u, ok := other.(*ssa.UnOp)
		if !ok || u.Op != token.MUL {
			continue
		}
		fa, ok := lw.fieldAddr(u.X)
		if !ok || fa.Field != pi.field {
			continue
		}
		if bin.Op == token.EQL {
			guards = append(guards, guard{b.Succs[0]})
		} else {
			guards = append(guards, guard{b.Succs[1]})
		}
	}
	var runs []*ssa.Call
	wrapped := map[*ssa.Call]bool{} // calls of a probe wrapper: their result already is (error == nil)
	for _, b := range f.Blocks {
		for _, ins := range b.Instrs {
			c, ok := ins.(*ssa.Call)
			if !ok {
				continue
			}
			if isExecRun(&c.Call) {
				runs = append(runs, c)
				if len(c.Call.Args) > 0 {
					pi.probeCmd = cmdArgs(c.Call.Args[0])
				}
			} else if args := cmdArgs(c); args != nil && c.Call.StaticCallee().Name() == "LookPath" {
				runs = append(runs, c)
				pi.probeCmd = args
			} else if idx, ok := probeWrapper(c.Call.StaticCallee()); ok {
				runs = append(runs, c)
				wrapped[c] = true
				pi.probeCmd = wrapperCmd(c, idx)
			}
		}
	}
	if len(runs) == 0 {
		r.bad("LCK-3", name, "probe "+fld, w.Pos(f.Pos()), "function stores the flag but performs no external probe")
		return
	}
	for _, run := range runs {
		c := "probe guarded by " + fld + " == nil"
		if lw.structFlag(pi.field) {
			c = "probe guarded by " + fld + " not yet probed"
		}
		guarded := false
		for _, g := range guards {
			// the true edge must be the only way into tblock
			if len(g.tblock.Preds) == 1 && dom(g.tblock, run.Block()) {
				guarded = true
			}
		}
		r.cond(guarded, "LCK-3", name, c, w.Pos(run.Pos()), "the probe's block is dominated by the true edge of the nil test on the same field", "the external probe is not control-dependent on the flag being nil: it can run more than once per cache")
		// must-store after probe: dataflow "probed and not yet stored"
		pending := lw.pendingAtReturn(f, run, pi.field, pi.armedSub)
		r.cond(!pending, "LCK-3", name, "store "+fld+" after probe", w.Pos(run.Pos()), "every path from the probe to a return stores into the same flag field", "some path from the probe reaches a return without caching the result: the next request probes again")
		// check-then-act atomicity: the mutex taken for the nil test is still held when the probe starts, and is not
		// released anywhere between the armed edge of the test and the store (else two requests both see nil and both probe)
		heldAtRun, seenRun := false, false
		var released *ssa.Call
		lw.flow(f, lw.entry[f], func(in ssa.Instruction, s lockState) {
			if in == ssa.Instruction(run) {
				heldAtRun, seenRun = s.must, true
			}
			if c, ok := in.(*ssa.Call); ok && lw.lockCall(&c.Call) == "Unlock" && released == nil {
				for _, g := range guards {
					if len(g.tblock.Preds) == 1 && dom(g.tblock, c.Block()) && lw.storeReachableFrom(c, pi.field) {
						released = c
					}
				}
			}
		})
		r.cond(seenRun && heldAtRun && released == nil, "LCK-3", name, "probe of "+fld+" runs with the mutex of the nil test still held", w.Pos(run.Pos()),
			"the cache mutex is held on every path at the probe call and no Unlock lies between the armed edge of the nil test and the store of the flag: test, probe and store form one critical section",
			"the cache mutex is released between the nil test of the flag and the store of the probe result: concurrent first requests all see nil and each probes the tool (more than once per cache)")
	}
	if lw.structFlag(pi.field) {
		lw.structFlagStores(pi, runs, wrapped)
		return
	}
	// cached boolean is (err == nil) of the probe, and the function returns the flag's value
	for _, b := range f.Blocks {
		for _, ins := range b.Instrs {
			st, ok := ins.(*ssa.Store)
			if !ok {
				continue
			}
			u, ok := st.Addr.(*ssa.UnOp)
			if !ok || u.Op != token.MUL {
				continue
			}
			fa, ok := lw.fieldAddr(u.X)
			if !ok || fa.Field != pi.field {
				continue
			}
			c := "*" + fld + " = (probe error == nil)"
			good := false
			if wc, ok := st.Val.(*ssa.Call); ok && wrapped[wc] {
				good = true // the wrapper returns exactly (run error == nil)
			}
			if bin, ok := st.Val.(*ssa.BinOp); ok && bin.Op == token.EQL {
				var other ssa.Value
				if k, ok := bin.Y.(*ssa.Const); ok && k.IsNil() {
					other = bin.X
				} else if k, ok := bin.X.(*ssa.Const); ok && k.IsNil() {
					other = bin.Y
				}
				if other != nil {
					for _, run := range runs {
						if other == ssa.Value(run) {
							good = true
						}
						if ex, ok := other.(*ssa.Extract); ok && ex.Tuple == ssa.Value(run) {
							good = true
						}
					}
				}
			}
			r.cond(good, "LCK-3", name, c, w.Pos(st.Pos()), "the cached boolean is exactly 'the probe returned a nil error'", "the cached boolean is not (probe error == nil): a missing tool is reported present or vice versa")
		}
	}
	for _, b := range f.Blocks {
		for _, ins := range b.Instrs {
			ret, ok := ins.(*ssa.Return)
			if !ok || len(ret.Results) != 1 {
				continue
			}
			if f.Recover != nil && b == f.Recover {
				continue // synthetic exit after a recovered panic: returns the spilled result
			}
			isFlagDeref := func(v ssa.Value) bool {
				if u, ok := v.(*ssa.UnOp); ok && u.Op == token.MUL {
					if u2, ok := u.X.(*ssa.UnOp); ok && u2.Op == token.MUL {
						if fa, ok := lw.fieldAddr(u2.X); ok && fa.Field == pi.field {
							return true
						}
					}
				}
				return false
			}
			good := isFlagDeref(ret.Results[0])
			if u, ok := ret.Results[0].(*ssa.UnOp); ok && u.Op == token.MUL && !good {
				// result spilled to a local because of the deferred Unlock: look at what is stored there
				if al, ok := u.X.(*ssa.Alloc); ok {
					n := 0
					good = true
					for _, ref := range *al.Referrers() {
						if st, ok := ref.(*ssa.Store); ok && st.Addr == ssa.Value(al) {
							n++
							if !isFlagDeref(st.Val) {
								good = false
							}
						}
					}
					if n == 0 {
						good = false
					}
				}
			}
			r.cond(good, "LCK-3", name, "return *"+fld, w.Pos(ret.Pos()), "the probe function returns the cached value of its own flag", "the probe function does not return the cached value of its own flag")
		}
	}
}

// structFlagStores is the second half of LCK-3 for a flag that is a struct of status bits: every store into the flag
// sets the armed bit to the constant true (so the probe is never re-armed), the other bit it stores is exactly
// (probe error == nil), and the function returns that bit of its own flag.
func (lw *lckWorld) structFlagStores(pi *probeInfo, runs []*ssa.Call, wrapped map[*ssa.Call]bool) {
	w, r := lw.w, lw.r
	f := pi.fn
	name := fname(w, f)
	fld := lw.flagIdx[pi.field]
	if pi.armedSub < 0 {
		r.bad("LCK-3", name, "probe guarded by "+fld+" not yet probed", w.Pos(f.Pos()), "no test of a status bit of the flag guards the probe: it can run more than once per cache")
		return
	}
	isTrue := func(v ssa.Value) bool {
		k, ok := v.(*ssa.Const)
		return ok && k.Value != nil && k.Value.Kind() == constant.Bool && constant.BoolVal(k.Value)
	}
	isProbeOK := func(v ssa.Value) bool {
		if wc, ok := v.(*ssa.Call); ok && wrapped[wc] {
			return true
		}
		bin, ok := v.(*ssa.BinOp)
		if !ok || bin.Op != token.EQL {
			return false
		}
		var other ssa.Value
		if k, ok := bin.Y.(*ssa.Const); ok && k.IsNil() {
			other = bin.X
		} else if k, ok := bin.X.(*ssa.Const); ok && k.IsNil() {
			other = bin.Y
		}
		for _, run := range runs {
			if other == ssa.Value(run) {
				return true
			}
			if ex, ok := other.(*ssa.Extract); ok && ex.Tuple == ssa.Value(run) {
				return true
			}
		}
		return false
	}
	// which bit the function returns
	resultSub := -1
	isFlagBit := func(v ssa.Value) (int, bool) {
		if u, ok := v.(*ssa.UnOp); ok && u.Op == token.MUL {
			if fl, sub, ok := lw.flagAddr(u.X); ok && fl == pi.field && sub >= 0 {
				return sub, true
			}
		}
		return 0, false
	}
	for _, b := range f.Blocks {
		for _, ins := range b.Instrs {
			ret, ok := ins.(*ssa.Return)
			if !ok || len(ret.Results) != 1 || (f.Recover != nil && b == f.Recover) {
				continue
			}
			good := false
			if sub, ok := isFlagBit(ret.Results[0]); ok && sub != pi.armedSub {
				good, resultSub = true, sub
			} else if u, ok := ret.Results[0].(*ssa.UnOp); ok && u.Op == token.MUL {
				if al, ok := u.X.(*ssa.Alloc); ok { // result spilled because of the deferred Unlock
					n := 0
					good = true
					for _, ref := range *al.Referrers() {
						if st, ok := ref.(*ssa.Store); ok && st.Addr == ssa.Value(al) {
							n++
							if sub, ok := isFlagBit(st.Val); ok && sub != pi.armedSub {
								resultSub = sub
							} else {
								good = false
							}
						}
					}
					good = good && n > 0
				}
			}
			r.cond(good, "LCK-3", name, "return *"+fld, w.Pos(ret.Pos()), "the probe function returns the cached result bit of its own flag", "the probe function does not return the cached value of its own flag")
		}
	}
	// stores: whole-struct stores of a composite literal, or stores into single bits
	checkBit := func(sub int, val ssa.Value, pos token.Pos) {
		switch {
		case sub == pi.armedSub:
			r.cond(isTrue(val), "LCK-3", name, "store "+fld+" non-nil", w.Pos(pos), "the status bit that disarms the probe is set to the constant true: the flag is never reset", "the bit that says 'already probed' is stored from something other than the constant true: it may be false and re-arm the probe")
		case sub == resultSub || resultSub < 0:
			r.cond(isProbeOK(val), "LCK-3", name, "*"+fld+" = (probe error == nil)", w.Pos(pos), "the cached boolean is exactly 'the probe returned a nil error'", "the cached boolean is not (probe error == nil): a missing tool is reported present or vice versa")
		}
	}
	for _, b := range f.Blocks {
		for _, ins := range b.Instrs {
			st, ok := ins.(*ssa.Store)
			if !ok {
				continue
			}
			fl, sub, ok := lw.flagAddr(st.Addr)
			if !ok || fl != pi.field {
				continue
			}
			if sub >= 0 {
				checkBit(sub, st.Val, st.Pos())
				continue
			}
			// whole value: must be a composite literal built in a local whose bits are stored once each
			ld, ok := st.Val.(*ssa.UnOp)
			var al *ssa.Alloc
			if ok && ld.Op == token.MUL {
				al, _ = ld.X.(*ssa.Alloc)
			}
			if al == nil {
				r.bad("LCK-3", name, "store "+fld+" non-nil", w.Pos(st.Pos()), "the flag is overwritten with a value that is not a status literal built here: it may have the 'already probed' bit unset and re-arm the probe")
				continue
			}
			seen := map[int]bool{}
			for _, ref := range *al.Referrers() {
				bfa, ok := ref.(*ssa.FieldAddr)
				if !ok {
					continue
				}
				for _, r2 := range *bfa.Referrers() {
					if bst, ok := r2.(*ssa.Store); ok && bst.Addr == ssa.Value(bfa) {
						seen[bfa.Field] = true
						checkBit(bfa.Field, bst.Val, bst.Pos())
					}
				}
			}
			if !seen[pi.armedSub] {
				r.bad("LCK-3", name, "store "+fld+" non-nil", w.Pos(st.Pos()), "the status literal stored into the flag leaves the 'already probed' bit at its zero value: the probe is re-armed")
			}
			if resultSub >= 0 && !seen[resultSub] {
				r.bad("LCK-3", name, "*"+fld+" = (probe error == nil)", w.Pos(st.Pos()), "the status literal stored into the flag does not set the result bit: a working tool is cached as missing")
			}
		}
	}
}

// pendingAtReturn: may a return be reached from `run` without a store into flag `field`?
// storeReachableFrom: some store into the flag field is reachable from the instruction after `from` (same block, later) or from a successor block.
func (lw *lckWorld) storeReachableFrom(from ssa.Instruction, field int) bool {
	isStore := func(in ssa.Instruction) bool {
		st, ok := in.(*ssa.Store)
		if !ok {
			return false
		}
		if fa, ok := lw.fieldAddr(st.Addr); ok && fa.Field == field {
			return true
		}
		if f, _, ok := lw.flagAddr(st.Addr); ok && f == field {
			return true
		}
		return false
	}
	b := from.Block()
	after := false
	for _, in := range b.Instrs {
		if after && isStore(in) {
			return true
		}
		if in == from {
			after = true
		}
	}
	seen := map[*ssa.BasicBlock]bool{}
	work := append([]*ssa.BasicBlock{}, b.Succs...)
	for len(work) > 0 {
		x := work[len(work)-1]
		work = work[:len(work)-1]
		if seen[x] {
			continue
		}
		seen[x] = true
		for _, in := range x.Instrs {
			if isStore(in) {
				return true
			}
		}
		work = append(work, x.Succs...)
	}
	return false
}

func (lw *lckWorld) pendingAtReturn(f *ssa.Function, run *ssa.Call, field, armedSub int) bool {
	pendIn := make([]bool, len(f.Blocks))
	result := false
	changed := true
	transfer := func(b *ssa.BasicBlock, p bool, final bool) bool {
		for _, ins := range b.Instrs {
			switch x := ins.(type) {
			case *ssa.Call:
				if x == run {
					p = true
				}
			case *ssa.Store:
				if fld, sub, ok := lw.flagAddr(x.Addr); ok && fld == field && (sub == -1 || sub == armedSub) {
					p = false
				}
			case *ssa.Return:
				if p && final {
					result = true
				}
			}
		}
		return p
	}
	for changed {
		changed = false
		for i, b := range f.Blocks {
			out := transfer(b, pendIn[i], false)
			for _, s := range b.Succs {
				if out && !pendIn[s.Index] {
					pendIn[s.Index] = true
					changed = true
				}
			}
		}
	}
	for i, b := range f.Blocks {
		transfer(b, pendIn[i], true)
	}
	return result
}

// formatFile implements LCK-5 and the dispatch half of LCK-4.
func (lw *lckWorld) formatFile() {
	w := lw.w
	fi := w.MustFunc("generator.(*Formatters).FormatFile")
	f := w.SSAFunc(fi)
	// FormatFile may delegate the choice of the command to a builder method that returns the *exec.Cmd (or nil):
	// then the builder carries the dispatch (one probe per path, a command only when the probe said present, the
	// command being the probed tool), and FormatFile must run exactly what the builder returned, once, when it is
	// not nil, and return that run's error.
	var builder *ssa.Function
	var buildCall *ssa.Call
	nProbe := 0
	for _, b := range f.Blocks {
		for _, ins := range b.Instrs {
			if c, ok := ins.(*ssa.Call); ok {
				callee := c.Call.StaticCallee()
				if callee != nil && lckProbes[callee] != nil {
					nProbe++
				}
				if callee != nil && callee != f && lw.w.InProd(callee) && callee.Signature.Results().Len() == 1 && callee.Signature.Results().At(0).Type().String() == "*os/exec.Cmd" && len(callee.Blocks) > 0 {
					builder, buildCall = callee, c
				}
			}
		}
	}
	if builder != nil && nProbe == 0 {
		lw.formatPaths(builder, fname(w, builder), "builder", nil)
		lw.formatPaths(f, fi.Name, "wrapper", buildCall)
		return
	}
	lw.formatPaths(f, fi.Name, "", nil)
}

// formatPaths enumerates the paths of f. mode "": f is FormatFile and does everything; "builder": f returns the command
// to run, or nil; "wrapper": f is FormatFile and runs what its builder call (build) returned.
func (lw *lckWorld) formatPaths(f *ssa.Function, name string, mode string, build *ssa.Call) {
	w, r := lw.w, lw.r
	probeCalls := map[*ssa.Function]int{}
	for _, b := range f.Blocks {
		for _, ins := range b.Instrs {
			if c, ok := ins.(*ssa.Call); ok {
				if callee := c.Call.StaticCallee(); callee != nil && lckProbes[callee] != nil {
					probeCalls[callee]++
				}
			}
		}
	}
	var ps []*ssa.Function
	for p := range lckProbes {
		ps = append(ps, p)
	}
	sort.Slice(ps, func(i, j int) bool { return ps[i].Pos() < ps[j].Pos() })
	for _, p := range ps {
		if mode == "wrapper" {
			break // the builder consults the probes
		}
		c := "dispatch to " + p.Name()
		r.cond(probeCalls[p] == 1, "LCK-4", name, c, w.Pos(f.Pos()), "FormatFile consults this probe at exactly one site", fmt.Sprintf("FormatFile consults probe %s at %d sites (expected exactly 1): a format is answered by another tool's probe or never probed", p.Name(), probeCalls[p]))
	}
	// path enumeration (acyclic expected)
	type event struct {
		kind string // probe-true, probe-false, run, sys, nilerr, nonnilerr, build
		val  ssa.Value
		recv ssa.Value // run: the command that is run
		fn   *ssa.Function
		pos  token.Pos
		desc string
	}
	npaths := 0
	// phiEnv: the value each phi node takes on the path being walked (decided by the edge the path arrives from), so
	// that `case format == Go && fr.hasGo():` (a phi of false and the probe's result) is followed path-sensitively
	type phiEnv map[*ssa.Phi]ssa.Value
	var walkFrom func(from, b *ssa.BasicBlock, evs []event, visited map[*ssa.BasicBlock]bool, env phiEnv)
	walk := func(from, b *ssa.BasicBlock, evs []event, visited map[*ssa.BasicBlock]bool, env phiEnv) {
		walkFrom(from, b, evs, visited, env)
	}
	walkFrom = func(from, b *ssa.BasicBlock, evs []event, visited map[*ssa.BasicBlock]bool, env phiEnv) {
		if visited[b] {
			r.bad("LCK-5", name, "loop", w.Pos(f.Pos()), "the formatting path contains a loop: a formatter may run more than once per request")
			return
		}
		if npaths > 5000 {
			Undecided("FormatFile has too many paths")
		}
		visited[b] = true
		defer delete(visited, b)
		if from != nil {
			ne := phiEnv{}
			for k, v := range env {
				ne[k] = v
			}
			for i, pr := range b.Preds {
				if pr != from {
					continue
				}
				for _, ins := range b.Instrs {
					if phi, ok := ins.(*ssa.Phi); ok {
						v := phi.Edges[i]
						if p2, ok := v.(*ssa.Phi); ok && env[p2] != nil {
							v = env[p2]
						}
						ne[phi] = v
					}
				}
			}
			env = ne
		}
		for _, ins := range b.Instrs {
			switch x := ins.(type) {
			case *ssa.Call:
				callee := x.Call.StaticCallee()
				switch {
				case isExecRun(&x.Call):
					var args []string
					if len(x.Call.Args) > 0 {
						args = cmdArgs(x.Call.Args[0])
					}
					ev := event{kind: "run", val: x, pos: x.Pos(), desc: strings.Join(args, " ")}
					if len(x.Call.Args) > 0 {
						ev.recv = x.Call.Args[0]
					}
					evs = append(evs, ev)
				case callee != nil && lckProbes[callee] != nil:
					// branch decided at the If below
				case mode == "wrapper" && x == build:
					evs = append(evs, event{kind: "build", val: x, pos: x.Pos()})
				case callee != nil && callee.Pkg != nil && callee.Pkg.Pkg != nil:
					pth := callee.Pkg.Pkg.Path()
					if pth == "os" || pth == "io/ioutil" || pth == "io" || (pth == "os/exec" && callee.Name() != "Command" && callee.Name() != "CommandContext") {
						evs = append(evs, event{kind: "sys", val: x, pos: x.Pos(), desc: callee.String()})
					} else if strings.HasPrefix(pth, modPath) && lw.w.InProd(callee) && callee != f {
						// an in-module helper: opaque => treat as possible system call unless it is a probe
						evs = append(evs, event{kind: "sys", val: x, pos: x.Pos(), desc: callee.String()})
					}
				case callee == nil:
					evs = append(evs, event{kind: "sys", val: x, pos: x.Pos(), desc: "dynamic call"})
				}
			case *ssa.Go, *ssa.Defer:
				evs = append(evs, event{kind: "sys", pos: x.Pos(), desc: "go/defer"})
			case *ssa.If:
				cond := x.Cond
				neg := false
				for {
					if u, ok := cond.(*ssa.UnOp); ok && u.Op == token.NOT {
						cond = u.X
						neg = !neg
						continue
					}
					if phi, ok := cond.(*ssa.Phi); ok && env[phi] != nil {
						cond = env[phi]
						continue
					}
					break
				}
				if k, ok := cond.(*ssa.Const); ok && k.Value != nil && k.Value.Kind() == constant.Bool {
					// decided on this path
					if constant.BoolVal(k.Value) != neg {
						walk(b, b.Succs[0], evs, visited, env)
					} else {
						walk(b, b.Succs[1], evs, visited, env)
					}
					return
				}
				// `v == K` for a value already known equal to another constant on this path is false: the cases
				// of one switch (or of an if-chain) over the requested format exclude each other
				if bin, ok := cond.(*ssa.BinOp); ok && (bin.Op == token.EQL || bin.Op == token.NEQ) {
					v, k := bin.X, bin.Y
					if _, isK := v.(*ssa.Const); isK {
						v, k = k, v
					}
					if kc, ok := k.(*ssa.Const); ok && !kc.IsNil() && kc.Value != nil {
						known := ""
						for _, e := range evs {
							if e.kind == "eq" && e.val == v {
								known = e.desc
							}
						}
						if known != "" {
							isEq := (known == kc.Value.ExactString()) == (bin.Op == token.EQL)
							if isEq != neg {
								walk(b, b.Succs[0], evs, visited, env)
							} else {
								walk(b, b.Succs[1], evs, visited, env)
							}
							return
						}
						eqEv := append(append([]event{}, evs...), event{kind: "eq", val: v, desc: kc.Value.ExactString()})
						if (bin.Op == token.EQL) != neg {
							walk(b, b.Succs[0], eqEv, visited, env)
							walk(b, b.Succs[1], evs, visited, env)
						} else {
							walk(b, b.Succs[0], evs, visited, env)
							walk(b, b.Succs[1], eqEv, visited, env)
						}
						return
					}
				}
				evT, evF := evs, evs
				if c, ok := cond.(*ssa.Call); ok {
					if callee := c.Call.StaticCallee(); callee != nil && lckProbes[callee] != nil {
						t := event{kind: "probe-true", fn: callee, pos: c.Pos()}
						fl := event{kind: "probe-false", fn: callee, pos: c.Pos()}
						if neg {
							t, fl = fl, t
						}
						evT = append(append([]event{}, evs...), t)
						evF = append(append([]event{}, evs...), fl)
					}
				} else if bin, ok := cond.(*ssa.BinOp); ok && (bin.Op == token.EQL || bin.Op == token.NEQ) {
					var other ssa.Value
					if k, ok := bin.Y.(*ssa.Const); ok && k.IsNil() {
						other = bin.X
					} else if k, ok := bin.X.(*ssa.Const); ok && k.IsNil() {
						other = bin.Y
					}
					if other != nil {
						isNilOnTrue := (bin.Op == token.EQL) != neg
						a, bb := "nilerr", "nonnilerr"
						if !isNilOnTrue {
							a, bb = bb, a
						}
						evT = append(append([]event{}, evs...), event{kind: a, val: other})
						evF = append(append([]event{}, evs...), event{kind: bb, val: other})
					}
				}
				walk(b, b.Succs[0], evT, visited, env)
				walk(b, b.Succs[1], evF, visited, env)
				return
			case *ssa.Return:
				npaths++
				var probeT, probeF []event
				var runs, sys []event
				nilOf := map[ssa.Value]bool{}
				for _, e := range evs {
					switch e.kind {
					case "probe-true":
						probeT = append(probeT, e)
					case "probe-false":
						probeF = append(probeF, e)
					case "run":
						runs = append(runs, e)
					case "sys":
						sys = append(sys, e)
					case "nilerr":
						nilOf[e.val] = true
					}
				}
				pathDesc := func() string {
					var parts []string
					for _, e := range evs {
						switch e.kind {
						case "probe-true":
							parts = append(parts, e.fn.Name()+"()=true")
						case "probe-false":
							parts = append(parts, e.fn.Name()+"()=false")
						case "run":
							parts = append(parts, "Run["+e.desc+"]")
						case "sys":
							parts = append(parts, "call["+e.desc+"]")
						}
					}
					if len(parts) == 0 {
						return "no probe"
					}
					return strings.Join(parts, " → ")
				}()
				c := "path: " + pathDesc
				pos := w.Pos(x.Pos())
				var res ssa.Value
				if len(x.Results) == 1 {
					res = x.Results[0]
				}
				isNilConst := func(v ssa.Value) bool {
					k, ok := v.(*ssa.Const)
					return ok && k.IsNil()
				}
				if mode == "wrapper" {
					var b0 *event
					for i := range evs {
						if evs[i].kind == "build" {
							b0 = &evs[i]
						}
					}
					switch {
					case b0 == nil:
						if len(runs) > 0 || len(sys) > 0 || res == nil || !isNilConst(res) {
							r.bad("LCK-5", name, c, pos, "a path that does not ask the command builder runs something or does not return nil")
						} else {
							r.ok("LCK-5", name, c, pos, "nothing built, nothing run, nil returned", true)
						}
					case nilOf[b0.val]:
						if len(runs) > 0 || len(sys) > 0 {
							r.bad("LCK-5", name, c, pos, "the builder returned no command (tool absent) but something runs on this path")
						} else if res == nil || !isNilConst(res) {
							r.bad("LCK-5", name, c, pos, "a path with the tool absent does not return nil")
						} else {
							r.ok("LCK-5", name, c, pos, "no command built: nothing runs, nil returned", true)
						}
					default:
						if len(runs) != 1 || runs[0].recv != b0.val {
							r.bad("LCK-5", name, c, pos, fmt.Sprintf("the command the builder returned is run %d times on this path, or another command is run (expected: that command, exactly once)", len(runs)))
						} else if len(sys) > 0 {
							r.bad("LCK-5", name, c, pos, "an extra process/file-system call besides the formatter run: "+sys[0].desc)
						} else if res == runs[0].val || (res != nil && isNilConst(res) && nilOf[runs[0].val]) {
							r.ok("LCK-5", name, c, pos, "the built command runs exactly once and its error is the returned value", true)
						} else {
							r.bad("LCK-5", name, c, pos, "the error of the formatter run is not what this path returns: a failing formatter is not reported")
						}
					}
					return
				}
				if mode == "builder" {
					// the value returned stands for the run: a command built by exec.Command, or nil
					var builtArgs []string
					if res != nil && !isNilConst(res) {
						builtArgs = cmdArgs(res)
					}
					switch {
					case len(runs) > 0 || len(sys) > 0:
						r.bad("LCK-5", name, c, pos, "the command builder itself starts a process or touches the file system")
					case len(probeT)+len(probeF) > 1:
						r.bad("LCK-5", name, c, pos, "more than one probe is consulted on this path")
					case len(probeT) == 1:
						pi := lckProbes[probeT[0].fn]
						agree := false
						if len(builtArgs) > 0 {
							for _, a := range pi.probeCmd {
								if a == builtArgs[0] {
									agree = true
								}
							}
						}
						if res == nil || isNilConst(res) || builtArgs == nil {
							r.bad("LCK-5", name, c, pos, "tool reported present but no command built by exec.Command is returned on this path")
						} else if !agree {
							r.bad("LCK-4", name, c, pos, fmt.Sprintf("the program to run (%q) is not the one the probe looked for (%q): presence of one tool is taken for another", strings.Join(builtArgs, " "), strings.Join(pi.probeCmd, " ")))
						} else {
							r.ok("LCK-5", name, c+" → Command["+strings.Join(builtArgs, " ")+"]", pos, "tool present: the command of the probed tool is returned (FormatFile runs it once)", true)
						}
					default:
						if res == nil || !isNilConst(res) {
							r.bad("LCK-5", name, c, pos, "a command is returned although no probe reported the tool present")
						} else {
							r.ok("LCK-5", name, c, pos, "tool absent or no format: no command", true)
						}
					}
					return
				}
				switch {
				case len(probeT)+len(probeF) > 1:
					r.bad("LCK-5", name, c, pos, "more than one probe is consulted on this path")
				case len(probeT) == 1:
					if len(runs) != 1 {
						r.bad("LCK-5", name, c, pos, fmt.Sprintf("tool reported present but %d formatter runs on this path (expected exactly 1)", len(runs)))
					} else if len(sys) > 0 {
						r.bad("LCK-5", name, c, pos, "an extra process/file-system call besides the formatter run: "+sys[0].desc)
					} else if res == runs[0].val || (res != nil && isNilConst(res) && nilOf[runs[0].val]) {
						// agreement probe/run
						pi := lckProbes[probeT[0].fn]
						runArgs := strings.Fields(runs[0].desc)
						agree := len(runArgs) > 0 && len(pi.probeCmd) > 0
						if agree {
							agree = false
							for _, a := range pi.probeCmd {
								if a == runArgs[0] {
									agree = true
								}
							}
						}
						if agree {
							r.ok("LCK-5", name, c, pos, "exactly one formatter run; its error is the returned value; the program run is the one named in the probe", true)
						} else {
							r.bad("LCK-4", name, c, pos, fmt.Sprintf("the program run (%q) is not the one the probe looked for (%q): presence of one tool is taken for another", runs[0].desc, strings.Join(pi.probeCmd, " ")))
						}
					} else {
						r.bad("LCK-5", name, c, pos, "the error of the formatter run is not what this path returns: a failing formatter is not reported")
					}
				default: // probe false or no probe at all
					if len(runs) > 0 {
						r.bad("LCK-5", name, c, pos, "a formatter runs although its probe did not report the tool present")
					} else if len(sys) > 0 {
						r.bad("LCK-5", name, c, pos, "process/file-system call on a path where the tool is absent: "+sys[0].desc)
					} else if res == nil || !isNilConst(res) {
						r.bad("LCK-5", name, c, pos, "a path with the tool absent does not return nil")
					} else {
						r.ok("LCK-5", name, c, pos, "tool absent or no format: nothing runs, nothing touches the file, nil returned", true)
					}
				}
				return
			case *ssa.Jump:
				walk(b, b.Succs[0], evs, visited, env)
				return
			case *ssa.Panic:
				npaths++
				r.bad("LCK-5", name, "path ending in panic", w.Pos(x.Pos()), "FormatFile panics on some path")
				return
			}
		}
	}
	walk(nil, f.Blocks[0], nil, map[*ssa.BasicBlock]bool{}, phiEnv{})
	r.note("formatfile_paths", npaths)
	if npaths < 2 {
		Undecided("%s has %d paths: rule no longer matches", name, npaths)
	}
}

func containsFormatters(t types.Type, target *types.Named, seen map[types.Type]bool) bool {
	if seen[t] {
		return false
	}
	seen[t] = true
	if n, ok := t.(*types.Named); ok && n.Origin() == target.Origin() {
		return true
	}
	if _, ok := t.(*types.Tuple); ok {
		return false
	}
	switch u := t.Underlying().(type) {
	case *types.Struct:
		for i := 0; i < u.NumFields(); i++ {
			if containsFormatters(u.Field(i).Type(), target, seen) {
				return true
			}
		}
	case *types.Array:
		return containsFormatters(u.Elem(), target, seen)
	}
	return false
}

// noCopies implements LCK-6.
func (lw *lckWorld) noCopies() {
	w, r := lw.w, lw.r
	n := 0
	for i := 0; i < lw.fmtT.NumMethods(); i++ {
		m := lw.fmtT.Method(i)
		sig := m.Type().(*types.Signature)
		_, isPtr := sig.Recv().Type().(*types.Pointer)
		r.cond(isPtr, "LCK-6", w.QualName(m), "receiver", w.Pos(m.Pos()), "pointer receiver", "method with a value receiver copies the mutex and the flags")
		n++
	}
	if n == 0 {
		Undecided("Formatters has no methods")
	}
	viol := 0
	checked := 0
	for _, f := range lw.funcs {
		name := fname(w, f)
		for _, p := range f.Params {
			if containsFormatters(p.Type(), lw.fmtT, map[types.Type]bool{}) {
				r.bad("LCK-6", name, "param "+p.Name(), w.Pos(p.Pos()), "Formatters passed by value")
				viol++
			}
		}
		for _, b := range f.Blocks {
			for _, ins := range b.Instrs {
				v, ok := ins.(ssa.Value)
				if !ok {
					continue
				}
				checked++
				switch v.(type) {
				case *ssa.Alloc, *ssa.FieldAddr, *ssa.IndexAddr, *ssa.MakeClosure:
					continue
				}
				if containsFormatters(v.Type(), lw.fmtT, map[types.Type]bool{}) {
					r.bad("LCK-6", name, fmt.Sprintf("%T of type %s", v, v.Type()), w.Pos(ins.Pos()), "a value containing Formatters is copied (loaded, returned or converted by value)")
					viol++
				}
			}
		}
	}
	if viol == 0 {
		r.ok("LCK-6", "<all production functions>", "no by-value Formatters", "-", fmt.Sprintf("%d SSA values inspected, none has a type containing Formatters by value", checked), true)
	}
}

// sharing implements LCK-7: cmd uses one package-level cache; FormatFile is called once per goroutine body.
func (lw *lckWorld) sharing() {
	w, r := lw.w, lw.r
	ff := w.SSAFunc(w.MustFunc("generator.(*Formatters).FormatFile"))
	sites := 0
	for _, f := range lw.funcs {
		for _, b := range f.Blocks {
			for _, ins := range b.Instrs {
				c, ok := ins.(ssa.CallInstruction)
				if !ok || c.Common().StaticCallee() != ff {
					continue
				}
				sites++
				name := fname(w, f)
				recv := c.Common().Args[0]
				_, isGlobal := recv.(*ssa.Global)
				_, isParam := recv.(*ssa.Parameter)
				_, isFree := recv.(*ssa.FreeVar)
				how := "receiver is the address of a package-level cache shared by all requests"
				if isParam || isFree {
					how = "receiver is a pointer handed in by the caller"
				}
				r.cond(isGlobal || isParam || isFree, "LCK-7", name, "FormatFile receiver", w.Pos(ins.Pos()), how, "FormatFile is called on a cache that is neither package-level nor handed in by pointer: each request gets its own cache and probes again")
				// in a loop inside the same function? (one run per request)
				if b.Index != 0 && inLoop(b) {
					r.bad("LCK-7", name, "FormatFile in loop", w.Pos(ins.Pos()), "FormatFile is called in a loop inside one goroutine body")
				}
			}
		}
	}
	if sites == 0 {
		r.warn("no call site of FormatFile in production code")
	}
}

func inLoop(b *ssa.BasicBlock) bool {
	// b is in a loop iff b is reachable from one of its successors
	seen := map[*ssa.BasicBlock]bool{}
	var stack []*ssa.BasicBlock
	stack = append(stack, b.Succs...)
	for len(stack) > 0 {
		x := stack[len(stack)-1]
		stack = stack[:len(stack)-1]
		if x == b {
			return true
		}
		if seen[x] {
			continue
		}
		seen[x] = true
		stack = append(stack, x.Succs...)
	}
	return false
}

// goroutineWrites implements LCK-8: a function literal started with `go` never stores into a variable it
// captures when another goroutine can touch the same cell: the parent after the `go` statement (before the cell
// is re-allocated by the next loop iteration), or another instance of the literal started by a later iteration
// (the cell is allocated outside the loop). sync primitives are method calls, not stores, and are unaffected.
func (lw *lckWorld) goroutineWrites() {
	w, r := lw.w, lw.r
	n := 0
	for _, f := range lw.funcs {
		for _, b := range f.Blocks {
			for gi, ins := range b.Instrs {
				g, ok := ins.(*ssa.Go)
				if !ok {
					continue
				}
				mc, ok := g.Call.Value.(*ssa.MakeClosure)
				if !ok {
					continue
				}
				lit := mc.Fn.(*ssa.Function)
				n++
				name := fname(w, f)
				for bi, bnd := range mc.Bindings {
					al, ok := bnd.(*ssa.Alloc)
					if !ok || bi >= len(lit.FreeVars) {
						continue
					}
					fv := lit.FreeVars[bi]
					// does the literal store into the captured cell?
					var storePos token.Pos
					stores := false
					for _, lb := range lit.Blocks {
						for _, li := range lb.Instrs {
							if st, ok := li.(*ssa.Store); ok && st.Addr == ssa.Value(fv) {
								stores = true
								storePos = st.Pos()
							}
						}
					}
					if !stores {
						continue
					}
					cons := "goroutine stores into captured " + fv.Name()
					// (a) the cell is allocated outside the loop the go statement is in: every iteration's goroutine shares it
					if inLoop(b) && !inLoop(al.Block()) {
						r.bad("LCK-8", name, cons, w.Pos(storePos), "the variable is declared outside the loop that starts the goroutines: all of them (and the parent) write the same cell without synchronisation -- a data race, and the value read afterwards is whichever write came last (a formatter error can be overwritten by a later success)")
						continue
					}
					// (b) the parent touches the cell after the go statement, before the cell is re-allocated
					touched := token.NoPos
					seen := map[*ssa.BasicBlock]bool{}
					var walk func(blk *ssa.BasicBlock, from int)
					walk = func(blk *ssa.BasicBlock, from int) {
						for i := from; i < len(blk.Instrs); i++ {
							in := blk.Instrs[i]
							if in == ssa.Instruction(al) {
								return // a fresh cell from here on
							}
							switch x := in.(type) {
							case *ssa.Store:
								if x.Addr == ssa.Value(al) {
									touched = x.Pos()
								}
							case *ssa.UnOp:
								if x.Op == token.MUL && x.X == ssa.Value(al) {
									touched = x.Pos()
								}
							}
						}
						for _, s := range blk.Succs {
							if !seen[s] {
								seen[s] = true
								walk(s, 0)
							}
						}
					}
					walk(b, gi+1)
					if touched.IsValid() {
						r.bad("LCK-8", name, cons, w.Pos(storePos), "the parent reads or writes the same variable at "+w.Pos(touched)+" after starting the goroutine, without synchronisation: a data race")
					} else {
						r.ok("LCK-8", name, cons, w.Pos(storePos), "the cell is allocated per loop iteration and the parent does not touch it between the go statement and its re-allocation: only this goroutine uses it", true)
					}
				}
			}
		}
	}
	r.note("go_statements", n)
}

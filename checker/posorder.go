package main

// POS-ORDER: token.Pos is a sort key only among declarations of one file.
//
// go/packages parses the files of a package concurrently into one FileSet: the base offset of a file depends on
// the order in which the parser goroutines registered them, so the relative order of two positions from two
// different files varies between two loads of the same program. Inside one file positions are ordered as the text.
// Obligations: every ordered comparison (<, <=, >, >=) of two token.Pos values inside a comparator (a function
// literal given to sort.Slice/SliceStable/slices.SortFunc, or a Less method). Discharge: the sorted collection is
// filled only under a test that the element's file is one given file
// (`Fset.Position(x.Pos()).Filename != file { continue }`), checked on the appends to that collection.

import (
	"go/ast"
	"go/token"
	"go/types"
	"strings"
)

func posOrderRule(w *World, r *Result, only func(rel string) bool) int {
	n := 0
	isPos := func(info *types.Info, e ast.Expr) bool {
		t := info.TypeOf(e)
		return t != nil && t.String() == "go/token.Pos"
	}
	for _, fi := range sortedFuncs(w) {
		if fi.Decl.Body == nil || (only != nil && !only(w.Rel(fi.Obj.Pkg()))) {
			continue
		}
		info := fi.Pkg.TypesInfo
		// comparator bodies: function literals passed to a sort function, or the body of a Less method
		type cmpBody struct {
			body   *ast.BlockStmt
			sorted ast.Expr // the collection, when known
		}
		var bodies []cmpBody
		if fi.Obj.Name() == "Less" && fi.Decl.Recv != nil {
			bodies = append(bodies, cmpBody{fi.Decl.Body, nil})
		}
		ast.Inspect(fi.Decl.Body, func(x ast.Node) bool {
			call, ok := x.(*ast.CallExpr)
			if !ok || len(call.Args) != 2 {
				return true
			}
			full := fullName(calleeOf(info, call))
			if !strings.HasPrefix(full, "sort.Slice") && !strings.HasPrefix(full, "slices.Sort") {
				return true
			}
			if lit := comparatorLit(info, fi, call.Args[1]); lit != nil {
				bodies = append(bodies, cmpBody{lit.Body, call.Args[0]})
			}
			return true
		})
		for _, cb := range bodies {
			ast.Inspect(cb.body, func(x ast.Node) bool {
				be, ok := x.(*ast.BinaryExpr)
				if !ok {
					return true
				}
				switch be.Op {
				case token.LSS, token.LEQ, token.GTR, token.GEQ:
				default:
					return true
				}
				if !isPos(info, be.X) || !isPos(info, be.Y) {
					return true
				}
				n++
				cons := "sort key " + es(be)
				pos := w.Pos(be.Pos())
				if cb.sorted != nil && filledFromOneFile(info, fi, cb.sorted) {
					r.ok("POS-ORDER", fi.Name, cons, pos, "the sorted collection only receives elements whose position lies in one given file (tested by file name before the append): positions of one file are ordered as the source text", true)
				} else {
					r.bad("POS-ORDER", fi.Name, cons, pos, "positions are used as a sort key for elements that may come from different files of a package: the files are parsed concurrently, so their relative order in the FileSet -- and with it this order -- varies from one load of the same program to the next")
				}
				return true
			})
		}
	}
	return n
}

// filledFromOneFile: every append to the collection happens after an early exit testing
// `<Fset>.Position(<elem>.Pos()).Filename != <file>` in the same loop body.
func filledFromOneFile(info *types.Info, fi *FuncInfo, coll ast.Expr) bool {
	id := identOf(coll)
	if id == nil {
		return false
	}
	obj := objOf(info, id)
	napp, okAll := 0, true
	for _, as := range appendStmts(info, fi.Decl.Body, "") {
		if l := identOf(as.Lhs[0]); l == nil || objOf(info, l) != obj {
			continue
		}
		napp++
		guarded := false
		for _, c := range pathConds(fi.Decl, as) {
			if c.expr == nil {
				continue
			}
			// "the file of the element is the file asked for", however it is reached: a negated early exit on `!=`, an
			// enclosing `if … == …`, the file name read directly or through a local bound once to it
			be, ok := ast.Unparen(c.expr).(*ast.BinaryExpr)
			if !ok || (be.Op != token.NEQ && be.Op != token.EQL) || (be.Op == token.EQL) != c.truth {
				continue
			}
			for _, side := range []ast.Expr{be.X, be.Y} {
				s := es(side)
				if sid := identOf(side); sid != nil {
					if ds := defsIn(info, fi.Decl, objOf(info, sid)); len(ds) == 1 {
						s = es(ds[0])
					}
				}
				if strings.Contains(s, ".Position(") && strings.HasSuffix(s, ".Filename") {
					guarded = true
				}
			}
		}
		if !guarded {
			okAll = false
		}
	}
	return napp > 0 && okAll
}

package main

// C08: the SQL schema is a faithful image of the table structs.

import (
	"fmt"
	"go/ast"
	"go/constant"
	"go/token"
	"go/types"
	"sort"
	"strings"
)

func init() { register("C08", "other", checkC08) }

func checkC08(w *World, r *Result) {
	r.Explanation = "Decides structural necessary conditions: EXH-c the Go->SQL mappings (newType over node kinds, typeConstraint over SQL types, basicTypeName/nameFromKind over basic kinds) handle every implementation/kind or refuse it with an explicit message; AGR-C08c NewTable appends one column per field in field order and skips exactly 'neither guard nor exported'; AGR-C08k isComposite accepts exactly integer basics and integer enums; AGR-C08f the self-reference exclusion of foreign keys applies to ID-typed detection only, a tagged field is a foreign key whenever the tag is present, and ForeignKeys/columns loops have no other filter; AGR-C08b each constraint family is produced by an unfiltered loop over the whole collection of the iterated table (foreign keys, guards by their own predicate, custom constraints), one CREATE TABLE per selected table; FLW-C08a the ON DELETE action, the guard value and the iterated table's name flow into the text of their constraint; AGR-C05d every table position in the DDL is filled by SQLTableName and column positions by the Go field name; AGR-C08p the primary column is decided by Table.Primary in both the DDL and the CRUD generator; DECL-ID the ID of every SQL declaration mentions every variable its content depends on. Does not decide: the Go->SQL type table itself (which kinds map to smallint), nullability choices and CHECK contents as values."
	r.Rules = []string{"EXH-c", "AGR-C08c", "AGR-C08k", "AGR-C08f", "AGR-C08t", "AGR-C08b", "FLW-C08a", "AGR-C05d", "AGR-C08p", "AGR-C08i", "AGR-C08n", "AGR-C08l", "AGR-C04e", "AGR-C04b", "DECL-ID", "CONST-EXACT", "UTF8-SLICE", "ALIAS-APPEND", "PRINTF", "MUT-AN", "BASIC-ID", "SEP-INDEX", "CUTSET"}
	mutAnRule(w, r, func(rel string) bool { return rel == "generator/sql" })
	basicIDRule(w, r, func(rel string) bool { return rel == "analysis/sql" || rel == "generator/sql" || rel == "analysis" })
	printfRule(w, r, "generator/sql")
	aliasAppendRule(w, r, func(rel string) bool { return rel == "analysis/sql" || rel == "generator/sql" || rel == "generator" })
	checkTotality(w, r)
	checkNewTable(w, r)
	checkIsComposite(w, r)
	checkNewTypeNode(w, r)
	checkSiblingLiterals(w, r)
	// the enum CHECK of a column lists the enum's constant values (rule shared with C04)
	subE := &Result{}
	checkUnionEnumValidators(w, subE)
	for _, o := range subE.Obs {
		if o.Rule == "AGR-C04e" {
			r.add(o)
		}
	}
	checkForeignKeys(w, r)
	checkTableIDThreshold(w, r)
	checkConstraintFamilies(w, r)
	// jsonb columns carry a CHECK calling the validator of their own type, each of them (rule shared with C04)
	shared(r, func(o Ob) bool { return o.Rule == "AGR-C04b" || o.Rule == "AGR-MD" }, func(sub *Result) { checkCheckWiring(w, sub) })
	checkConstraintFlows(w, r)
	checkTableNaming(w, r, "generator/sql")
	checkPrimaryAgreement(w, r)
	declIDRule(w, r, "generator/sql")
	utf8SliceRule(w, r, func(rel string) bool { return rel == "generator/sql" || rel == "analysis/sql" || rel == "generator" })
	if _, n := constExactRule(w, r, func(rel string) bool { return rel == "generator/sql" || rel == "generator" }); n < 1 {
		Undecided("CONST-EXACT: fewer enum value renderings than confirmed by hand")
	}
}

// checkTotality (EXH-c).
func checkTotality(w *World, r *Result) {
	targets := map[string]bool{"analysis/sql.newType": true, "generator/sql.typeConstraint": true}
	n := 0
	for _, si := range collectSwitches(w) {
		if !targets[si.fn] || !si.onParam && si.fn != "generator/sql.typeConstraint" {
			continue
		}
		n++
		cons := "switch " + si.subject + ".(type) over " + si.itf
		switch {
		case len(si.missing) == 0:
			r.ok("EXH-c", si.fn, cons, si.pos, "every implementation is mapped (accepted: "+strings.Join(si.accepted, ",")+"; refused with a message: "+strings.Join(si.refused, ",")+")", true)
		case si.deflt == "panic-diagnostic":
			r.ok("EXH-c", si.fn, cons, si.pos, "kinds without a case ("+strings.Join(si.missing, ",")+") reach a default that refuses them with a message", true)
		default:
			r.bad("EXH-c", si.fn, cons, si.pos, "the mapping has no case for "+strings.Join(si.missing, ",")+" and no refusing default: such columns get an empty/zero SQL type")
		}
	}
	if n < 2 {
		Undecided("only %d of the Go->SQL mapping switches were found", n)
	}
	// BasicKind switches: all four kinds or a panicking default
	kinds := []string{"BKString", "BKInt", "BKFloat", "BKBool"}
	for _, q := range []string{"analysis/sql.basicTypeName", "generator/sql.nameFromKind"} {
		fi := w.MustFunc(q)
		d := constDispatchOf(w, fi, "analysis.BasicKind")
		if !d.found {
			Undecided("%s: no dispatch over BasicKind (switch, equality tests or table lookup)", q)
		}
		covered, hasDefaultPanic, pos := d.covered, d.refuses, d.pos
		var missing []string
		for _, k := range kinds {
			if !covered[k] {
				missing = append(missing, k)
			}
		}
		r.cond(len(missing) == 0 || hasDefaultPanic, "EXH-c", fi.Name, "switch over BasicKind", w.Pos(pos), "all four basic kinds are mapped (or refused by a panicking default)", "basic kinds "+strings.Join(missing, ",")+" have no SQL/JSON name and no refusing default")
	}
}

func checkNewTable(w *World, r *Result) {
	fi := w.MustFunc("analysis/sql.NewTable")
	info := fi.Pkg.TypesInfo
	var fl *fieldLoop
	for _, l := range fieldLoops(w) {
		if l.fn == fi && l.kind == "StructField" {
			fl = l
		}
	}
	if fl == nil {
		Undecided("NewTable: no loop over struct fields")
	}
	// a column is appended exactly for the fields that are exported or guards, whatever the spelling of the test
	// (`if !exported && !isGuard {continue}` or `if exported || isGuard {append}`)
	apps := appendStmts(info, fl.rs.Body, "Columns")
	var guards []string
	if len(apps) == 1 {
		guards = reachConds(info, fi.Decl, fl.rs, apps[0], fl.subst)
	}
	want := []string{"($f.Field.Exported() || $f.IsSQLGuard()#1)"}
	r.cond(setEq(guards, want), "AGR-C08c", fi.Name, "column filter", w.Pos(fl.rs.Pos()),
		"a field becomes a column exactly when it is a guard or exported",
		"a column is appended under {"+strings.Join(guards, ", ")+"} instead of exactly {exported or guard}: columns are dropped or unexported fields become columns")
	okApp := false
	onlyLeading := true
	if len(apps) == 1 && onlyLeading {
		if lit, ok := apps[0].Rhs[0].(*ast.CallExpr).Args[1].(*ast.CompositeLit); ok {
			fOK, tOK := false, false
			for _, el := range lit.Elts {
				if kv, ok := el.(*ast.KeyValueExpr); ok {
					v := render(info, kv.Value, fl.subst)
					if es(kv.Key) == "Field" && v == "$f" {
						fOK = true
					}
					if es(kv.Key) == "SQLType" && v == "newType($f.Type)" {
						tOK = true
					}
				}
			}
			okApp = fOK && tOK
		}
	}
	r.cond(okApp, "AGR-C08c", fi.Name, "one column per kept field: Column{Field: f, SQLType: newType(f.Type)}", w.Pos(fl.rs.Pos()), "appended once per iteration, in field order", "columns are not appended one per kept field with the field's own SQL type")
}

func checkIsComposite(w *World, r *Result) {
	fi := w.MustFunc("analysis/sql.isComposite")
	info := fi.Pkg.TypesInfo
	// first, by evaluation: the loop over the fields is interpreted for one abstract field type per case that
	// matters; a field must be accepted exactly when it is an integer enum or an integer basic. The syntactic
	// reading below is only used when the code steps outside the interpreted language.
	var floop *ast.RangeStmt
	ast.Inspect(fi.Decl.Body, func(x ast.Node) bool {
		if rs, ok := x.(*ast.RangeStmt); ok && floop == nil && strings.HasSuffix(es(rs.X), ".Fields") {
			floop = rs
		}
		return true
	})
	if floop != nil {
		domain := []struct {
			n      absNode
			accept bool
			label  string
		}{
			{absNode{kind: "Enum", isInteger: true}, true, "integer enum"},
			{absNode{kind: "Enum"}, false, "non-integer enum"},
			{absNode{kind: "Basic", kindInt: true}, true, "integer basic"},
			{absNode{kind: "Basic"}, false, "non-integer basic (float, string, bool)"},
			{absNode{kind: "Struct"}, false, "struct"}, {absNode{kind: "Named"}, false, "named"}, {absNode{kind: "Array"}, false, "array"},
			{absNode{kind: "Map"}, false, "map"}, {absNode{kind: "Time"}, false, "time"}, {absNode{kind: "Union"}, false, "union"}, {absNode{kind: "Pointer"}, false, "pointer"},
		}
		decided, wrong := true, ""
		for i := range domain {
			d := &domain[i]
			got := fieldLoopDecision(w, fi, floop, &d.n)
			if got == "" {
				decided = false
				break
			}
			if (got == "accept") != d.accept {
				wrong += d.label + " is " + got + "ed; "
			}
		}
		// after the loop the function must answer true
		endsTrue := false
		if n := len(fi.Decl.Body.List); n > 0 {
			if ret, ok := fi.Decl.Body.List[n-1].(*ast.ReturnStmt); ok && len(ret.Results) == 1 && es(ret.Results[0]) == "true" {
				endsTrue = true
			}
		}
		if decided && endsTrue {
			r.cond(wrong == "", "AGR-C08k", fi.Name, "composite = all fields are integer basics or integer enums", w.Pos(floop.Pos()),
				"evaluated over every kind of field type: a field is accepted exactly when it is an Enum with IsInteger() or a Basic of kind BKInt", "isComposite decides wrongly for some field types ("+wrong+"): structs with non-integer fields (e.g. floats) become composite types instead of jsonb, or integer-only structs are no longer composite")
			return
		}
	}
	// the function is a filter over the fields: every `return false` is a rejection, described by the conditions
	// of its path (type-switch clause of the field's node, test on the bound value); the fall-through is `return true`
	var rejections, accepts []string
	var first ast.Node
	ast.Inspect(fi.Decl.Body, func(x ast.Node) bool {
		if _, ok := x.(*ast.FuncLit); ok {
			return false
		}
		ret, ok := x.(*ast.ReturnStmt)
		if !ok || len(ret.Results) != 1 {
			return true
		}
		if first == nil {
			first = ret
		}
		conds := pathConds(fi.Decl, ret)
		subst := map[types.Object]string{}
		for _, c := range conds {
			if c.clause != nil {
				if b := info.Implicits[c.clause]; b != nil {
					subst[b] = "$t"
				}
			}
		}
		set := strings.Join(condSetN(info, conds, subst), " && ")
		tv := info.Types[ret.Results[0]]
		switch {
		case tv.Value != nil && !constant.BoolVal(tv.Value):
			rejections = append(rejections, set)
		case tv.Value != nil:
			accepts = append(accepts, set)
		default:
			rejections = append(rejections, "returns "+es(ret.Results[0])+" under "+set)
		}
		return true
	})
	if first == nil {
		Undecided("isComposite: no return")
	}
	sort.Strings(rejections)
	want := []string{"!($t.IsInteger()) && case *an.Enum", "!($t.Kind() == an.BKInt) && case *an.Basic", "default"}
	good := len(accepts) == 1 && accepts[0] == "" && len(rejections) == len(want)
	for i := range want {
		if i >= len(rejections) || rejections[i] != want[i] {
			good = false
		}
	}
	r.cond(good, "AGR-C08k", fi.Name, "composite = all fields are integer basics or integer enums", w.Pos(first.Pos()), "a field is rejected exactly when it is an Enum that is not IsInteger(), a Basic whose Kind() is not BKInt, or any other node; otherwise the struct is composite", "isComposite rejects {"+strings.Join(rejections, "; ")+"} and accepts under {"+strings.Join(accepts, "; ")+"}: structs with non-integer fields (e.g. floats) become composite types instead of jsonb, or integer-only structs are no longer composite")
}

func checkForeignKeys(w *World, r *Result) {
	fi := w.MustFunc("analysis/sql.(*Table).newForeignKey")
	info := fi.Pkg.TypesInfo
	nTrue := 0
	ast.Inspect(fi.Decl.Body, func(x ast.Node) bool {
		ret, ok := x.(*ast.ReturnStmt)
		if !ok || len(ret.Results) != 2 || es(ret.Results[1]) != "true" {
			return true
		}
		nTrue++
		// which source does Target come from in this branch?
		var cs []string
		source := ""
		selfExcl := false
		for _, c := range pathConds(fi.Decl, ret) {
			if c.expr == nil || c.exit != nil {
				continue
			}
			s := es(c.expr)
			cs = append(cs, s)
			if strings.Contains(s, ".Name.Obj().Name()") || strings.Contains(s, "TableName()") {
				selfExcl = true
			}
			// `<owner>.Obj().Name()` with owner a parameter that receives the table's own `.Name`
			ast.Inspect(c.expr, func(y ast.Node) bool {
				call, ok := y.(*ast.CallExpr)
				if !ok {
					return true
				}
				if fn := calleeOf(info, call); fn == nil || fn.Name() != "Name" || fn.Pkg() == nil || fn.Pkg().Path() != "go/types" {
					return true
				}
				sel, _ := call.Fun.(*ast.SelectorExpr)
				if sel == nil {
					return true
				}
				objCall, ok := ast.Unparen(sel.X).(*ast.CallExpr)
				if !ok {
					return true
				}
				if fn := calleeOf(info, objCall); fn == nil || fn.Name() != "Obj" || fn.Pkg() == nil || fn.Pkg().Path() != "go/types" {
					return true
				}
				osel, _ := objCall.Fun.(*ast.SelectorExpr)
				if osel == nil || identOf(osel.X) == nil {
					return true
				}
				ds, _ := defsThroughAny(w, fi, objOf(info, identOf(osel.X)))
				all := len(ds) > 0
				for _, d := range ds {
					if !strings.HasSuffix(es(d), ".Name") {
						all = false
					}
				}
				if all {
					selfExcl = true
				}
				return true
			})
		}
		// the enclosing if's init tells the source
		ast.Inspect(fi.Decl.Body, func(y ast.Node) bool {
			is, ok := y.(*ast.IfStmt)
			if !ok || !(is.Body.Pos() <= ret.Pos() && ret.End() <= is.Body.End()) || is.Init == nil {
				return true
			}
			init := es(is.Init.(*ast.AssignStmt).Rhs[0])
			if strings.Contains(init, "isTableID") {
				source = "idtype"
			} else if strings.Contains(init, "gomacro-sql-foreign") {
				source = "tag"
			}
			return true
		})
		pos := w.Pos(ret.Pos())
		switch source {
		case "idtype":
			r.cond(selfExcl, "AGR-C08f", fi.Name, "ID-typed foreign key excludes the table's own ID", pos, "an ID type naming the table itself is not a foreign key", "a field of the table's own ID type is treated as a foreign key to itself")
		case "tag":
			r.cond(!selfExcl, "AGR-C08f", fi.Name, "tagged foreign key has no further condition", pos, "a field tagged gomacro-sql-foreign is a foreign key whenever the tag is present (self references included)", "a tagged foreign key is subject to {"+strings.Join(cs, " ; ")+"}: a self-referencing table (tag naming its own table) gets no FOREIGN KEY constraint")
		default:
			r.bad("AGR-C08f", fi.Name, "foreign key source", pos, "a foreign key is recognised from a source other than an ID type or the gomacro-sql-foreign tag")
		}
		return true
	})
	if nTrue != 2 {
		r.bad("AGR-C08f", fi.Name, "two foreign-key sources", fnPos(w, fi), "expected exactly the ID-type branch and the tag branch")
	}
	// ForeignKeys: loop over all columns, append when newForeignKey says ok, nothing else
	fk := w.MustFunc("analysis/sql.(Table).ForeignKeys")
	finfo := fk.Pkg.TypesInfo
	apps := appendStmts(finfo, fk.Decl.Body, "")
	good := false
	if len(apps) == 1 {
		conds := pathCondsNoLoop(fk, apps[0])
		if len(conds) == 1 {
			good = true
		}
		var loop *ast.RangeStmt
		ast.Inspect(fk.Decl.Body, func(x ast.Node) bool {
			if rs, ok := x.(*ast.RangeStmt); ok {
				loop = rs
			}
			return true
		})
		good = good && loop != nil && strings.HasSuffix(es(loop.X), ".Columns")
	}
	r.cond(good, "AGR-C08f", fk.Name, "every column is tested for being a foreign key", fnPos(w, fk), "range ta.Columns; append iff newForeignKey(field) ok", "ForeignKeys does not test every column, or filters further")
	// OnDelete reads the tag
	od := w.MustFunc("analysis/sql.(ForeignKey).OnDelete")
	tagOK := false
	ast.Inspect(od.Decl.Body, func(x ast.Node) bool {
		if k, ok := tagGetKeyExpr(od.Pkg.TypesInfo, x); ok && k == "gomacro-sql-on-delete" {
			tagOK = true
		}
		return true
	})
	r.cond(tagOK, "AGR-C08f", od.Name, "ON DELETE action from the gomacro-sql-on-delete tag", fnPos(w, od), "Tag.Get(\"gomacro-sql-on-delete\")", "the ON DELETE action is not read from its tag")
	_ = info
}

func tagGetKeyExpr(info *types.Info, n ast.Node) (string, bool) {
	e, ok := n.(ast.Expr)
	if !ok {
		return "", false
	}
	return tagGetKey(info, e)
}

func checkConstraintFamilies(w *World, r *Result) {
	fi := w.MustFunc("generator/sql.Generate")
	info := fi.Pkg.TypesInfo
	var outer *ast.RangeStmt
	for _, st := range fi.Decl.Body.List {
		if rs, ok := st.(*ast.RangeStmt); ok && outer == nil {
			outer = rs
		}
	}
	if outer == nil || identOf(outer.Value) == nil {
		Undecided("sql.Generate: no loop over tables")
	}
	ta := info.Defs[identOf(outer.Value)]
	// tables := sql.SelectTables(ana)
	fromSelect := false
	if id := identOf(outer.X); id != nil {
		for _, d := range defsIn(info, fi.Decl, objOf(info, id)) {
			if call, ok := d.(*ast.CallExpr); ok && strings.HasSuffix(fullName(calleeOf(info, call)), "sql.SelectTables") {
				fromSelect = true
			}
		}
	}
	r.cond(fromSelect, "AGR-C08b", fi.Name, "tables = SelectTables(analysis)", w.Pos(outer.Pos()), "the loop ranges over every struct of the source file", "the table loop does not range over sql.SelectTables(ana)")
	sub := map[types.Object]string{ta: "$ta"}
	type fam struct{ coll, call string }
	fams := []fam{{"$ta.CustomConstraints", "generateCustomConstraint"}, {"$ta.ForeignKeys()", "generateForeignConstraint"}, {"$ta.Columns", "generateQuardConstraint"}}
	// generateTable(ta) once per table, unconditional
	gt := false
	for _, st := range outer.Body.List {
		ast.Inspect(st, func(x ast.Node) bool {
			if call, ok := x.(*ast.CallExpr); ok && strings.HasSuffix(fullName(calleeOf(info, call)), "sql.generateTable") {
				if len(call.Args) == 1 && render(info, call.Args[0], sub) == "$ta" && len(pathCondsNoLoop(fi, call)) == 0 {
					gt = true
				}
			}
			return true
		})
	}
	r.cond(gt, "AGR-C08b", fi.Name, "one CREATE TABLE per table", w.Pos(outer.Pos()), "generateTable(ta) unconditionally for every table", "generateTable is not called once, unconditionally, for each table")
	for _, f := range fams {
		found, filterOK := false, false
		var pos token.Pos = outer.Pos()
		ast.Inspect(outer.Body, func(x ast.Node) bool {
			rs, ok := x.(*ast.RangeStmt)
			if !ok || render(info, rs.X, sub) != f.coll {
				return true
			}
			found = true
			pos = rs.Pos()
			ast.Inspect(rs.Body, func(y ast.Node) bool {
				call, ok := y.(*ast.CallExpr)
				if !ok || !strings.HasSuffix(fullName(calleeOf(info, call)), "sql."+f.call) {
					return true
				}
				conds := pathCondsNoLoop(fi, call)
				switch f.call {
				case "generateQuardConstraint":
					// the one condition is the comma-ok result of IsSQLGuard() (bound by the if's init or earlier), holding
					filterOK = false
					if len(conds) == 1 && conds[0].truth {
						if id := identOf(conds[0].expr); id != nil {
							for _, d := range defsIn(info, fi.Decl, objOf(info, id)) {
								if c2, ok := ast.Unparen(d).(*ast.CallExpr); ok && strings.HasSuffix(fullName(calleeOf(info, c2)), ".IsSQLGuard") {
									filterOK = true
								}
							}
						}
					}
					// or the call is unconditional and the callee itself leaves, returning nothing, when the column has
					// no guard (`value, ok := column.Field.IsSQLGuard(); if !ok { return nil }`)
					if len(conds) == 0 {
						if h := w.Funcs[calleeOf(info, call)]; h != nil && h.Decl.Body != nil {
							ast.Inspect(h.Decl.Body, func(z ast.Node) bool {
								is, ok := z.(*ast.IfStmt)
								if !ok || is.Else != nil || len(is.Body.List) != 1 {
									return true
								}
								ret, ok := is.Body.List[0].(*ast.ReturnStmt)
								if !ok || len(ret.Results) != 1 || es(ret.Results[0]) != "nil" {
									return true
								}
								for _, c := range splitCond(is.Cond, true) {
									if id := identOf(c.expr); id != nil && !c.truth {
										for _, d := range defsIn(info, h.Decl, objOf(info, id)) {
											if c2, ok := ast.Unparen(d).(*ast.CallExpr); ok && strings.HasSuffix(fullName(calleeOf(info, c2)), ".IsSQLGuard") {
												filterOK = true
											}
										}
									}
								}
								return true
							})
						}
					}
				default:
					filterOK = len(conds) == 0
				}
				return true
			})
			return true
		})
		// the loop runs to the end: no break, return or goto leaves it after the first hit
		ast.Inspect(outer.Body, func(x ast.Node) bool {
			rs, ok := x.(*ast.RangeStmt)
			if !ok || render(info, rs.X, sub) != f.coll {
				return true
			}
			ast.Inspect(rs.Body, func(y ast.Node) bool {
				switch v := y.(type) {
				case *ast.FuncLit:
					return false
				case *ast.RangeStmt, *ast.ForStmt, *ast.SwitchStmt, *ast.TypeSwitchStmt, *ast.SelectStmt:
					// an unlabelled break inside a nested loop or switch leaves that statement only
					labelled := false
					ast.Inspect(y, func(z ast.Node) bool {
						if b, ok := z.(*ast.BranchStmt); ok && b.Label != nil && (b.Tok == token.BREAK || b.Tok == token.GOTO) {
							labelled = true
						}
						return true
					})
					if labelled {
						r.bad("AGR-C08b", fi.Name, f.call+": labelled exit in the loop over "+f.coll, w.Pos(y.Pos()), "a labelled break/goto may leave the constraint loop before every element was handled")
					}
					return false
				case *ast.BranchStmt:
					if v.Tok == token.BREAK || v.Tok == token.GOTO {
						r.bad("AGR-C08b", fi.Name, f.call+": "+v.Tok.String()+" in the loop over "+f.coll, w.Pos(v.Pos()), "the loop stops at the first element that produces a constraint: the following guard columns / keys / comments of the same table get none")
					}
				case *ast.ReturnStmt:
					r.bad("AGR-C08b", fi.Name, f.call+": return in the loop over "+f.coll, w.Pos(v.Pos()), "the generator returns from inside the constraint loop: later elements and later tables get no constraint")
				}
				return true
			})
			return false
		})
		r.cond(found && filterOK, "AGR-C08b", fi.Name, f.call+" for every element of "+f.coll, w.Pos(pos), "unfiltered loop over the whole collection of the iterated table (guards: only the IsSQLGuard predicate)", "the "+f.call+" family is not produced by an unfiltered loop over "+f.coll+": some constraints are missing")
	}
}

func enclosingIf(body ast.Node, n ast.Node) *ast.IfStmt {
	var res *ast.IfStmt
	ast.Inspect(body, func(x ast.Node) bool {
		if is, ok := x.(*ast.IfStmt); ok && is.Body.Pos() <= n.Pos() && n.End() <= is.Body.End() {
			res = is
		}
		return true
	})
	return res
}

// sprintfArgs returns the rendered arguments of the fmt.Sprintf calls in fi whose format contains marker.
func sprintfArgs(fi *FuncInfo, marker string) [][]string {
	info := fi.Pkg.TypesInfo
	var out [][]string
	ast.Inspect(fi.Decl.Body, func(x ast.Node) bool {
		call := sprintfView(info, x)
		if call == nil {
			return true
		}
		tv := info.Types[call.Args[0]]
		if tv.Value == nil || !strings.Contains(constant.StringVal(tv.Value), marker) {
			return true
		}
		var args []string
		args = append(args, constant.StringVal(tv.Value))
		inl := inlineLocals(info, fi.Decl)
		for _, a := range call.Args[1:] {
			args = append(args, render(info, a, inl))
		}
		out = append(out, args)
		return true
	})
	return out
}

func checkConstraintFlows(w *World, r *Result) {
	// FOREIGN KEY: table of the iteration, field name, target table, ON DELETE
	fc := w.MustFunc("generator/sql.generateForeignConstraint")
	calls := sprintfArgs(fc, "FOREIGN KEY")
	good := false
	if len(calls) == 1 && len(calls[0]) == 5 {
		a := calls[0]
		onDel := false
		// the 4th hole is a variable built from fk.OnDelete()
		info := fc.Pkg.TypesInfo
		ast.Inspect(fc.Decl.Body, func(x ast.Node) bool {
			if as, ok := x.(*ast.AssignStmt); ok && len(as.Lhs) == 1 && es(as.Lhs[0]) == a[4] {
				if be, ok := as.Rhs[0].(*ast.BinaryExpr); ok {
					if tv := info.Types[be.X]; tv.Value != nil && strings.Contains(constant.StringVal(tv.Value), "ON DELETE") {
						if id := identOf(be.Y); id != nil {
							for _, d := range defsIn(info, fc.Decl, objOf(info, id)) {
								if strings.HasSuffix(es(d), ".OnDelete()") {
									onDel = true
								}
							}
						}
					}
				}
			}
			return true
		})
		good = strings.HasPrefix(a[1], "gen.SQLTableName(") && strings.HasSuffix(a[2], ".F.Field.Name()") && strings.HasPrefix(a[3], "gen.SQLTableName(") && strings.Contains(a[3], ".Target") && onDel
	}
	r.cond(good, "FLW-C08a", fc.Name, "FOREIGN KEY text", fnPos(w, fc), "ALTER TABLE <SQLTableName(source)> ADD FOREIGN KEY(<field>) REFERENCES <SQLTableName(fk.Target)> <ON DELETE fk.OnDelete()>", "the FOREIGN KEY text is not built from the source table, the field name, the target table and the tagged ON DELETE action")
	// the caller passes the iterated table's name
	gen := w.MustFunc("generator/sql.Generate")
	ginfo := gen.Pkg.TypesInfo
	passOK := false
	ast.Inspect(gen.Decl.Body, func(x ast.Node) bool {
		if call, ok := x.(*ast.CallExpr); ok && calleeOf(ginfo, call) == fc.Obj && len(call.Args) == 2 {
			if strings.HasSuffix(es(call.Args[0]), ".TableName()") {
				// same root as the ForeignKeys() collection being ranged
				var rs *ast.RangeStmt
				ast.Inspect(gen.Decl.Body, func(y ast.Node) bool {
					if r2, ok := y.(*ast.RangeStmt); ok && r2.Body.Pos() <= call.Pos() && call.End() <= r2.Body.End() && strings.HasSuffix(es(r2.X), ".ForeignKeys()") {
						rs = r2
					}
					return true
				})
				if rs != nil && rootIdent(rs.X) != nil && rootIdent(call.Args[0]) != nil && rootIdent(rs.X).Name == rootIdent(call.Args[0]).Name && identOf(call.Args[1]) != nil && identOf(rs.Value) != nil && identOf(call.Args[1]).Name == identOf(rs.Value).Name {
					passOK = true
				}
			}
		}
		return true
	})
	r.cond(passOK, "FLW-C08a", gen.Name, "foreign constraint gets its own table and key", fnPos(w, gen), "generateForeignConstraint(ta.TableName(), foreign) for foreign in ta.ForeignKeys()", "the foreign-key constraint is not built with the table that owns the key")
	// guards: value flows into both statements, same table and column
	gq := w.MustFunc("generator/sql.generateQuardConstraint")
	gcalls := append(sprintfArgs(gq, "SET DEFAULT"), sprintfArgs(gq, "ADD CHECK")...)
	gok := len(gcalls) == 2
	for _, a := range gcalls {
		if len(a) != 4 || !strings.HasPrefix(a[1], "gen.SQLTableName(") || !strings.HasSuffix(a[2], ".Field.Field.Name()") || a[3] != "value" {
			gok = false
		}
	}
	r.cond(gok, "FLW-C08a", gq.Name, "guard: DEFAULT and CHECK(col = value) from the same table, column and value", fnPos(w, gq), "both statements are formatted with SQLTableName(ta.TableName()), the column's Go name and the guard value", "the guard default and its equality CHECK are not both built from the guard's table, column and value")
}

// checkTableNaming (AGR-C05d): in the Sprintf formats of package rel, the hole following a table keyword is
// filled by gen.SQLTableName(...) or a variable defined from it.
func checkTableNaming(w *World, r *Result, rel string) int {
	n := 0
	kw := regexpMust(`(ALTER TABLE|CREATE TABLE|REFERENCES|INSERT INTO|DELETE FROM|FROM|UPDATE|CopyIn\(")\s*"?\s*(%(\[(\d+)\])?s)`)
	for _, fi := range sortedFuncs(w) {
		if w.Rel(fi.Obj.Pkg()) != rel {
			continue
		}
		info := fi.Pkg.TypesInfo
		ast.Inspect(fi.Decl.Body, func(x ast.Node) bool {
			call := sprintfView(info, x)
			if call == nil {
				return true
			}
			tv := info.Types[call.Args[0]]
			if tv.Value == nil {
				return true
			}
			format := constant.StringVal(tv.Value)
			// map every verb occurrence to its argument index
			type vb struct{ start, arg int }
			var verbs []vb
			argi := 0
			for _, m := range verbRe.FindAllStringSubmatchIndex(format, -1) {
				v := format[m[0]:m[1]]
				if v == "%%" {
					continue
				}
				if m[2] >= 0 {
					var k int
					fmtSscan(format[m[2]+1:m[3]-1], &k)
					argi = k - 1
				}
				verbs = append(verbs, vb{m[0], argi})
				argi++
			}
			for _, m := range kw.FindAllStringSubmatchIndex(format, -1) {
				holeStart := m[4]
				keyword := strings.ToUpper(strings.TrimSpace(format[m[2]:m[3]]))
				for _, v := range verbs {
					if v.start != holeStart || v.arg+1 >= len(call.Args) {
						continue
					}
					n++
					a := call.Args[v.arg+1]
					good := isTableNameExpr(w, fi, a, 0)
					cons := keyword + " <" + es(a) + ">"
					r.cond(good, "AGR-C05d", fi.Name, cons, w.Pos(call.Pos()), "the table position is filled by generator.SQLTableName (directly or through a local defined from it)", "the table position after "+keyword+" is filled by "+es(a)+", which does not come from generator.SQLTableName: the statement names a table the schema does not create")
				}
			}
			return true
		})
	}
	return n
}

func fmtSscan(s string, k *int) {
	v := 0
	for _, c := range s {
		if c >= '0' && c <= '9' {
			v = v*10 + int(c-'0')
		}
	}
	*k = v
}

func isTableNameExpr(w *World, fi *FuncInfo, e ast.Expr, depth int) bool {
	info := fi.Pkg.TypesInfo
	e = ast.Unparen(e)
	if call, ok := e.(*ast.CallExpr); ok {
		return strings.HasSuffix(fullName(calleeOf(info, call)), "generator.SQLTableName")
	}
	if id := identOf(e); id != nil && depth < 3 {
		defs := defsIn(info, fi.Decl, objOf(info, id))
		if len(defs) == 0 {
			return false
		}
		for _, d := range defs {
			if !isTableNameExpr(w, fi, d, depth+1) {
				return false
			}
		}
		return true
	}
	return false
}

func checkPrimaryAgreement(w *World, r *Result) {
	prim := w.MustFunc("analysis/sql.(Table).Primary")
	for _, q := range []string{"generator/sql.generateTable", "generator/go/sqlcrud.newColumnsCode", "generator/go/sqlcrud.(context).generateTable", "generator/go/sqlcrud.(context).generatePrimaryTable"} {
		fi := w.MustFunc(q)
		uses := false
		ast.Inspect(fi.Decl.Body, func(x ast.Node) bool {
			if call, ok := x.(*ast.CallExpr); ok && calleeOf(fi.Pkg.TypesInfo, call) == prim.Obj {
				uses = true
			}
			return true
		})
		if !uses {
			// the index may be computed once by the caller and handed down: an int parameter that every call site fills
			// with Table.Primary() (directly or through a local bound once to it)
			for pi, pobj := range paramObjs(fi) {
				if b, ok := pobj.Type().Underlying().(*types.Basic); !ok || b.Kind() != types.Int {
					continue
				}
				ds, wh := defsThroughAny(w, fi, pobj)
				all := len(ds) > 0
				for k, d := range ds {
					ci := wh[k].Pkg.TypesInfo
					isPrim := func(e ast.Expr) bool {
						c, ok := ast.Unparen(e).(*ast.CallExpr)
						return ok && calleeOf(ci, c) == prim.Obj
					}
					okArg := isPrim(d)
					if id := identOf(d); id != nil && !okArg {
						if dd := defsIn(ci, wh[k].Decl, objOf(ci, id)); len(dd) == 1 && isPrim(dd[0]) {
							okArg = true
						}
					}
					if !okArg {
						all = false
					}
				}
				_ = pi
				if all {
					uses = true
				}
			}
		}
		r.cond(uses, "AGR-C08p", fi.Name, "primary column decided by Table.Primary()", fnPos(w, fi), "calls Table.Primary", "this function decides the primary column without Table.Primary(): DDL and CRUD can disagree on which column is the id")
	}
	// AGR-C08i: columns are identified by their Go field name everywhere (CREATE TABLE, CRUD statements); Primary()
	// must look at that name too, and package analysis/sql never keys a column by its JSON name
	ncmp := 0
	ast.Inspect(prim.Decl.Body, func(x ast.Node) bool {
		be, ok := x.(*ast.BinaryExpr)
		if !ok || be.Op != token.EQL {
			return true
		}
		ncmp++
		usesGoName, usesJSON := false, false
		ast.Inspect(be, func(y ast.Node) bool {
			if call, ok := y.(*ast.CallExpr); ok {
				switch fullName(calleeOf(prim.Pkg.TypesInfo, call)) {
				case "(*go/types.object).Name", "(*go/types.Var).Name":
					usesGoName = true
				case "(" + modPath + "/analysis.StructField).JSONName":
					usesJSON = true
				}
			}
			return true
		})
		r.cond(usesGoName && !usesJSON, "AGR-C08i", prim.Name, "id column recognised by its Go field name: "+es(be), w.Pos(be.Pos()),
			"the comparison reads Field.Name() of the go/types field, the name every SQL statement uses for the column",
			"the primary column is not recognised by the Go field name (the name CREATE TABLE and the CRUD statements use) but by another name of the field: `Id int64 `json:\"account_id\"`` is no longer the primary key, or a column whose JSON name is \"id\" becomes one")
		return true
	})
	if ncmp == 0 {
		// Primary() returns a stored index: it must be a position in Columns -- len(Columns) at the time the column is
		// appended, or the key of a loop over Columns -- not the key of a loop over another list that skips elements
		var field *types.Var
		ast.Inspect(prim.Decl.Body, func(x ast.Node) bool {
			if ret, ok := x.(*ast.ReturnStmt); ok && len(ret.Results) == 1 {
				if sel, ok := ast.Unparen(ret.Results[0]).(*ast.SelectorExpr); ok {
					field, _ = prim.Pkg.TypesInfo.Uses[sel.Sel].(*types.Var)
				}
			}
			return true
		})
		if field == nil {
			Undecided("AGR-C08i: Table.Primary neither compares field names nor returns a stored index")
		}
		nst := 0
		for _, fi := range sortedFuncs(w) {
			if fi.Pkg != prim.Pkg || fi.Decl.Body == nil {
				continue
			}
			finfo := fi.Pkg.TypesInfo
			ast.Inspect(fi.Decl.Body, func(x ast.Node) bool {
				as, ok := x.(*ast.AssignStmt)
				if !ok || len(as.Lhs) != 1 || len(as.Rhs) != 1 {
					return true
				}
				sel, ok := ast.Unparen(as.Lhs[0]).(*ast.SelectorExpr)
				if !ok || finfo.Uses[sel.Sel] != types.Object(field) {
					return true
				}
				if tv := finfo.Types[as.Rhs[0]]; tv.Value != nil {
					return true // the "not found" constant
				}
				nst++
				good, why := false, "the stored primary index is `"+es(as.Rhs[0])+"`, which is not a position in Columns"
				if call, ok := ast.Unparen(as.Rhs[0]).(*ast.CallExpr); ok && isBuiltinCall(finfo, call, "len") && strings.HasSuffix(es(call.Args[0]), ".Columns") {
					good = true
				}
				if id := identOf(as.Rhs[0]); id != nil {
					ast.Inspect(fi.Decl.Body, func(y ast.Node) bool {
						rs, ok := y.(*ast.RangeStmt)
						if !ok || identOf(rs.Key) == nil || finfo.Defs[identOf(rs.Key)] != objOf(finfo, id) {
							return true
						}
						if strings.HasSuffix(es(rs.X), ".Columns") {
							good = true
						} else {
							why = "the stored primary index is the position in " + es(rs.X) + ", while every consumer uses it as a position in Columns: the loop skips fields that are not columns, so after a skipped field (an unexported field before Id) the index points at the wrong column"
						}
						return true
					})
				}
				r.cond(good, "AGR-C08i", fi.Name, es(as.Lhs[0])+" = "+es(as.Rhs[0]), w.Pos(as.Pos()), "a position in Columns", why)
				return true
			})
		}
		if nst == 0 {
			Undecided("AGR-C08i: the stored primary index is never assigned")
		}
	}
	for _, fi := range sortedFuncs(w) {
		if w.Rel(fi.Obj.Pkg()) != "analysis/sql" || fi.Decl.Body == nil {
			continue
		}
		ast.Inspect(fi.Decl.Body, func(x ast.Node) bool {
			if call, ok := x.(*ast.CallExpr); ok && fullName(calleeOf(fi.Pkg.TypesInfo, call)) == "("+modPath+"/analysis.StructField).JSONName" {
				r.bad("AGR-C08i", fi.Name, "JSONName() in package analysis/sql", w.Pos(call.Pos()), "a table column is keyed by its JSON name in the SQL analysis, while every generated statement names columns by the Go field name")
			}
			return true
		})
	}
	// createStmt: primary => serial PRIMARY KEY
	// wherever the literal lives (createStmt under its isPrimary parameter, or a function of its own called for the
	// primary column): it is reached exactly for the column whose index is Table.Primary()
	cs := w.MustFunc("generator/sql.createStmt")
	gtab := w.MustFunc("generator/sql.generateTable")
	found := false
	for _, cf := range calleeClosure(w, gtab, 2) {
		if cf.Pkg != gtab.Pkg || cf.Decl.Body == nil {
			continue
		}
		ci := cf.Pkg.TypesInfo
		ast.Inspect(cf.Decl.Body, func(x ast.Node) bool {
			lit, ok := x.(*ast.BasicLit)
			if !ok || !strings.Contains(lit.Value, "serial PRIMARY KEY") {
				return true
			}
			isPrimaryCond := func(fn *FuncInfo, e ast.Expr) bool {
				return e != nil && strings.Contains(es(e), ".Primary()")
			}
			// conditions inside the function
			for _, c := range pathConds(cf.Decl, lit) {
				if c.expr == nil || !c.truth {
					continue
				}
				if isPrimaryCond(cf, c.expr) {
					found = true
				}
				// a boolean parameter that the call site fills with the Primary comparison
				if id := identOf(c.expr); id != nil {
					if pi := paramIndex(cf, objOf(ci, id)); pi >= 0 {
						ds, _ := defsThroughAny(w, cf, objOf(ci, id))
						all := len(ds) > 0
						for _, d := range ds {
							if !isPrimaryCond(nil, d) {
								all = false
							}
						}
						if all {
							found = true
						}
					}
				}
			}
			// or every call of the function is made under the Primary comparison
			if !found && cf != gtab {
				sites, all := 0, true
				ast.Inspect(gtab.Decl.Body, func(y ast.Node) bool {
					call, ok := y.(*ast.CallExpr)
					if !ok || calleeOf(gtab.Pkg.TypesInfo, call) != cf.Obj {
						return true
					}
					sites++
					under := false
					for _, c := range pathConds(gtab.Decl, call) {
						if c.expr != nil && c.truth && isPrimaryCond(gtab, c.expr) {
							under = true
						}
					}
					if !under {
						all = false
					}
					return true
				})
				if sites > 0 && all {
					found = true
				}
			}
			return true
		})
	}
	r.cond(found, "AGR-C08p", cs.Name, "id column is `serial PRIMARY KEY`", fnPos(w, cs), "the literal is reached for the column at Table.Primary()", "the primary column is no longer declared serial PRIMARY KEY (the literal is missing, or not tied to the column at Table.Primary())")
}

// checkTableIDThreshold (AGR-C08t): an ID type `Id<T>` / `<T>Id` names table T for every non-empty T:
// the length conditions on the way to the slicing must hold exactly for len(name) > len("id").
func checkTableIDThreshold(w *World, r *Result) {
	fi := w.MustFunc("analysis/sql.isTableID")
	info := fi.Pkg.TypesInfo
	n := 0
	ast.Inspect(fi.Decl.Body, func(x ast.Node) bool {
		ret, ok := x.(*ast.ReturnStmt)
		if !ok || len(ret.Results) != 1 {
			return true
		}
		hasSlice := false
		ast.Inspect(ret.Results[0], func(y ast.Node) bool {
			if _, ok := y.(*ast.SliceExpr); ok {
				hasSlice = true
			}
			return true
		})
		if !hasSlice {
			return true
		}
		n++
		affix := 0
		var lenConds []pcond
		for _, c := range pathConds(fi.Decl, ret) {
			if c.expr == nil {
				continue
			}
			if call, ok := c.expr.(*ast.CallExpr); ok && c.truth {
				f := fullName(calleeOf(info, call))
				if (f == "strings.HasPrefix" || f == "strings.HasSuffix") && len(call.Args) == 2 {
					if tv := info.Types[call.Args[1]]; tv.Value != nil && tv.Value.Kind() == constant.String {
						affix = len(constant.StringVal(tv.Value))
					}
				}
			}
			if be, ok := c.expr.(*ast.BinaryExpr); ok {
				if call, ok := be.X.(*ast.CallExpr); ok && isBuiltinCall(info, call, "len") {
					if _, ok := constInt(info, be.Y); ok {
						lenConds = append(lenConds, c)
					}
				}
			}
		}
		good := affix > 0 && len(lenConds) > 0
		witness := -1
		if good {
			for ln := 0; ln <= affix+4; ln++ {
				pass := true
				for _, c := range lenConds {
					be := c.expr.(*ast.BinaryExpr)
					k, _ := constInt(info, be.Y)
					if evalCmp(be.Op, ln, k) != c.truth {
						pass = false
					}
				}
				if pass != (ln > affix) {
					good = false
					witness = ln
				}
			}
		}
		cons := "return " + es(ret.Results[0])
		why := "the length conditions on this path do not hold exactly for len(name) > len(affix)"
		if witness >= 0 {
			why += fmt.Sprintf(": a name of %d characters (table name of %d letter(s)) is treated differently", witness, witness-affix)
		}
		r.cond(good, "AGR-C08t", fi.Name, cons, w.Pos(ret.Pos()), "reached exactly when the name is longer than the `id` affix: every non-empty table name is recognised and the slice is in range", why+", so its ID type is not a foreign key: no FOREIGN KEY constraint and no by-key helpers")
		return true
	})
	if n < 2 {
		Undecided("isTableID: prefix and suffix branches not found")
	}
}

// checkNewTypeNode (AGR-C08n): every SQL type newType returns wraps the node it was asked to convert (the
// type-switch variable / parameter), not a node derived from it: Builtin.IsNullable, Type() and the JSON validators
// look at that node, so wrapping the inner time type of a nullable wrapper makes the column NOT NULL.
func checkNewTypeNode(w *World, r *Result) {
	fi := w.MustFunc("analysis/sql.newType")
	info := fi.Pkg.TypesInfo
	itf, _ := w.TypeOf("analysis/sql", "Type").Underlying().(*types.Interface)
	if itf == nil {
		Undecided("AGR-C08n: analysis/sql.Type is not an interface")
	}
	var param types.Object
	if fi.Decl.Type.Params.NumFields() == 1 && len(fi.Decl.Type.Params.List[0].Names) == 1 {
		param = info.Defs[fi.Decl.Type.Params.List[0].Names[0]]
	}
	binders := map[types.Object]bool{param: true}
	ast.Inspect(fi.Decl.Body, func(x ast.Node) bool {
		if ts, ok := x.(*ast.TypeSwitchStmt); ok {
			if as, ok := ts.Assign.(*ast.AssignStmt); ok {
				if ta, ok := as.Rhs[0].(*ast.TypeAssertExpr); ok {
					if id := identOf(ta.X); id != nil && objOf(info, id) == param {
						for _, cl := range ts.Body.List {
							if o := info.Implicits[cl]; o != nil {
								binders[o] = true
							}
						}
					}
				}
			}
		}
		return true
	})
	n := 0
	ast.Inspect(fi.Decl.Body, func(x ast.Node) bool {
		lit, ok := x.(*ast.CompositeLit)
		if !ok {
			return true
		}
		t := info.TypeOf(lit)
		if t == nil || !types.Implements(t, itf) {
			return true
		}
		for _, el := range lit.Elts {
			kv, ok := el.(*ast.KeyValueExpr)
			if !ok {
				continue
			}
			vt := info.TypeOf(kv.Value)
			if vt == nil || !strings.Contains(vt.String(), "/analysis.") {
				continue // not the node field
			}
			n++
			id := identOf(kv.Value)
			good := id != nil && binders[objOf(info, id)]
			r.cond(good, "AGR-C08n", fi.Name, es(lit.Type)+"{"+es(kv.Key)+": "+es(kv.Value)+"}", w.Pos(kv.Pos()),
				"the SQL type wraps the node being converted",
				"the SQL type wraps `"+es(kv.Value)+"`, a node derived from the one being converted: nullability (IsNullable looks at the wrapped node), the Go type and the validators of the column are those of the inner node -- e.g. a nullable date wrapper becomes `date NOT NULL`")
		}
		return true
	})
	if n < 5 {
		Undecided("AGR-C08n: only %d SQL type literals found in newType", n)
	}
}

// checkSiblingLiterals (AGR-C08l): the SQL types newType builds inside one branch (e.g. the nullable-wrapper
// branch) are siblings: composite literals of one type there set the same fields. A field set by some and left at
// its zero value by another (a stored `nullable` flag) makes that one case behave like the non-wrapper case.
func checkSiblingLiterals(w *World, r *Result) {
	fi := w.MustFunc("analysis/sql.newType")
	info := fi.Pkg.TypesInfo
	type lit struct {
		node *ast.CompositeLit
		keys []string
	}
	groups := map[string][]lit{} // type + innermost enclosing if/case position -> literals
	var stack []ast.Node
	ast.Inspect(fi.Decl.Body, func(x ast.Node) bool {
		if x == nil {
			stack = stack[:len(stack)-1]
			return false
		}
		stack = append(stack, x)
		cl, ok := x.(*ast.CompositeLit)
		if !ok || info.TypeOf(cl) == nil {
			return true
		}
		tn := info.TypeOf(cl).String()
		if !strings.Contains(tn, "analysis/sql.") {
			return true
		}
		// outermost enclosing if statement inside the case clause: the "branch family"
		branch := ""
		for i := len(stack) - 1; i >= 0; i-- {
			if _, ok := stack[i].(*ast.CaseClause); ok {
				break
			}
			if is, ok := stack[i].(*ast.IfStmt); ok {
				branch = w.Pos(is.Pos())
			}
		}
		if branch == "" {
			return true
		}
		var keys []string
		for _, el := range cl.Elts {
			if kv, ok := el.(*ast.KeyValueExpr); ok {
				keys = append(keys, es(kv.Key))
			}
		}
		sort.Strings(keys)
		groups[tn+"@"+branch] = append(groups[tn+"@"+branch], lit{cl, keys})
		return true
	})
	n := 0
	for key, ls := range groups {
		if len(ls) < 2 {
			continue
		}
		// the richest key set is the reference
		ref := ls[0].keys
		for _, l := range ls {
			if len(l.keys) > len(ref) {
				ref = l.keys
			}
		}
		for _, l := range ls {
			n++
			r.cond(setEq(l.keys, ref), "AGR-C08l", fi.Name, "sibling literal "+es(l.node.Type)+"{"+strings.Join(l.keys, ", ")+"}", w.Pos(l.node.Pos()),
				"sets the same fields as the other literals of its branch",
				"this literal sets {"+strings.Join(l.keys, ", ")+"} while a sibling in the same branch ("+key[strings.Index(key, "@")+1:]+") sets {"+strings.Join(ref, ", ")+"}: the field left out keeps its zero value, so this case behaves differently from its siblings (a nullable date wrapper is not nullable)")
		}
	}
	_ = n
}

// paramObjs: the objects of the parameters of fi, in order.
func paramObjs(fi *FuncInfo) []types.Object {
	var out []types.Object
	for _, f := range fi.Decl.Type.Params.List {
		for _, nm := range f.Names {
			out = append(out, fi.Pkg.TypesInfo.Defs[nm])
		}
	}
	return out
}

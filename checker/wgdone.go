package main

// LCK-9 (WG-DONE): a goroutine that announces its end with (*sync.WaitGroup).Done must do so on every path on which
// it returns: a return that skips Done (an early `return` after reporting an error) leaves the counter above zero and
// the Wait of the caller never returns — the failure the goroutine meant to report is never delivered. Paths that end
// in a panic are not counted (the process dies, nothing waits).

import (
	"go/ast"
	"go/types"
)

func wgDoneRule(w *World, r *Result, only func(rel string) bool) int {
	n := 0
	for _, fi := range sortedFuncs(w) {
		rel := w.Rel(fi.Obj.Pkg())
		if fi.Decl.Body == nil || (only != nil && !only(rel)) {
			continue
		}
		info := fi.Pkg.TypesInfo
		isDone := func(x ast.Node) bool {
			call, ok := x.(*ast.CallExpr)
			return ok && fullName(calleeOf(info, call)) == "(*sync.WaitGroup).Done"
		}
		ast.Inspect(fi.Decl.Body, func(x ast.Node) bool {
			gs, ok := x.(*ast.GoStmt)
			if !ok {
				return true
			}
			lit, ok := ast.Unparen(gs.Call.Fun).(*ast.FuncLit)
			if !ok {
				return true
			}
			has := false
			deferred := false
			ast.Inspect(lit.Body, func(y ast.Node) bool {
				if y != ast.Node(lit) {
					if _, nested := y.(*ast.FuncLit); nested {
						// a deferred closure that calls Done counts as deferred
						return true
					}
				}
				if isDone(y) {
					has = true
				}
				return true
			})
			if !has {
				return true
			}
			n++
			for _, st := range lit.Body.List {
				if d, ok := st.(*ast.DeferStmt); ok {
					if isDone(d.Call) {
						deferred = true
					}
					if fl, ok := ast.Unparen(d.Call.Fun).(*ast.FuncLit); ok {
						ast.Inspect(fl.Body, func(y ast.Node) bool {
							if isDone(y) {
								deferred = true
							}
							return true
						})
					}
				}
				// anything that can return before the defer is registered defeats it
				if !deferred {
					if _, isDefer := st.(*ast.DeferStmt); !isDefer {
						break
					}
				}
			}
			cons := "go func() { … Done() … }"
			pos := w.Pos(gs.Pos())
			if deferred {
				r.ok("LCK-9", fi.Name, cons, pos, "Done is deferred before anything else: it runs on every exit of the goroutine", true)
				return true
			}
			// path walk: done is true on a path after a Done call; a return or the end of the body with done false is a leak
			var leak ast.Node
			var walk func(list []ast.Stmt, done bool) (bool, bool) // (done on fall-through, falls through)
			walk = func(list []ast.Stmt, done bool) (bool, bool) {
				for _, st := range list {
					switch s := st.(type) {
					case *ast.ExprStmt:
						if isDone(s.X) {
							done = true
						}
						if p, _ := isPanicStmt(info, s); p {
							return done, false
						}
						if call, ok := s.X.(*ast.CallExpr); ok {
							switch fullName(calleeOf(info, call)) {
							case "os.Exit", "log.Fatal", "log.Fatalf", "log.Fatalln", "runtime.Goexit":
								return done, false
							}
						}
					case *ast.ReturnStmt:
						if !done && leak == nil {
							leak = s
						}
						return done, false
					case *ast.BlockStmt:
						d, ft := walk(s.List, done)
						if !ft {
							return d, false
						}
						done = d
					case *ast.IfStmt:
						d1, ft1 := walk(s.Body.List, done)
						d2, ft2 := done, true
						switch e := s.Else.(type) {
						case *ast.BlockStmt:
							d2, ft2 = walk(e.List, done)
						case *ast.IfStmt:
							d2, ft2 = walk([]ast.Stmt{e}, done)
						}
						switch {
						case !ft1 && !ft2:
							return done, false
						case !ft1:
							done = d2
						case !ft2:
							done = d1
						default:
							done = d1 && d2
						}
					case *ast.SwitchStmt, *ast.TypeSwitchStmt, *ast.SelectStmt:
						var body *ast.BlockStmt
						hasDefault := false
						switch v := s.(type) {
						case *ast.SwitchStmt:
							body = v.Body
						case *ast.TypeSwitchStmt:
							body = v.Body
						case *ast.SelectStmt:
							body = v.Body
							hasDefault = true // a select runs one of its clauses
						}
						all, anyFT := true, false
						for _, cl := range body.List {
							var cb []ast.Stmt
							switch c := cl.(type) {
							case *ast.CaseClause:
								cb = c.Body
								if c.List == nil {
									hasDefault = true
								}
							case *ast.CommClause:
								cb = c.Body
							}
							d, ft := walk(cb, done)
							if ft {
								anyFT = true
								all = all && d
							}
						}
						if !hasDefault {
							anyFT = true
							all = all && done
						}
						if !anyFT {
							return done, false
						}
						done = all
					case *ast.ForStmt:
						walk(s.Body.List, done) // returns inside the loop are checked; the loop may run zero times
					case *ast.RangeStmt:
						walk(s.Body.List, done)
					case *ast.LabeledStmt:
						d, ft := walk([]ast.Stmt{s.Stmt}, done)
						if !ft {
							return d, false
						}
						done = d
					}
				}
				return done, true
			}
			d, ft := walk(lit.Body.List, false)
			if ft && !d && leak == nil {
				leak = lit.Body
			}
			if leak == nil {
				r.ok("LCK-9", fi.Name, cons, pos, "every path on which the goroutine returns passes a Done call (paths ending in a panic excluded)", true)
			} else {
				r.bad("LCK-9", fi.Name, cons, w.Pos(leak.Pos()), "the goroutine returns here without having called Done: the WaitGroup counter stays above zero and the caller's Wait never returns, so the failure this path reports (and the result of every other goroutine) is never delivered — defer the Done, or call it before every return")
			}
			return true
		})
	}
	return n
}

var _ = types.Universe

package main

// E-OBL: partial-operation obligations (type assertions, index, slice, positional accessors,
// curated nil sources). Syntax-directed fact propagation over the typed AST.

import (
	"fmt"
	"go/ast"
	"go/constant"
	"go/token"
	"go/types"
	"regexp"
	"regexp/syntax"
	"strings"

	"golang.org/x/tools/go/packages"
)

type fact struct {
	lenOf   string // len(lenOf) >= min
	min     int
	idx     string // idx < len(idxOf)  (idxOf may be "X#NumFields" for accessor counts)
	idxOf   string
	tyExpr  string // dynamic type of tyExpr is in tySet
	tySet   []string
	nonNil  string // expression known non-nil
	holds   string // a condition (rendered) known to be true here
	alias   string // alias = aliasOf (type-switch binder or single-definition local)
	aliasOf string
}

type oblCtx struct {
	w       *World
	pkg     *packages.Package
	fn      *ast.FuncDecl
	fname   string
	facts   []fact
	out     *[]Ob
	commaOk map[ast.Node]bool
	okBind  map[types.Object]*ast.AssignStmt
}

func (c *oblCtx) info() *types.Info { return c.pkg.TypesInfo }

func negateTok(op token.Token) token.Token {
	switch op {
	case token.GTR:
		return token.LEQ
	case token.GEQ:
		return token.LSS
	case token.LSS:
		return token.GEQ
	case token.LEQ:
		return token.GTR
	case token.EQL:
		return token.NEQ
	case token.NEQ:
		return token.EQL
	}
	return op
}

func flipTok(op token.Token) token.Token {
	switch op {
	case token.GTR:
		return token.LSS
	case token.GEQ:
		return token.LEQ
	case token.LSS:
		return token.GTR
	case token.LEQ:
		return token.GEQ
	}
	return op
}

func (c *oblCtx) lenArg(e ast.Expr) (string, bool) {
	// a local bound once to len(x) / x.NumFields() stands for it (`switch n := len(x); { case n >= 2: … }`)
	if id, ok := ast.Unparen(e).(*ast.Ident); ok && c.fn != nil {
		if obj, ok := objOf(c.info(), id).(*types.Var); ok && !obj.IsField() {
			if defs := c.defsOf(obj); len(defs) == 1 && defs[0] != nil {
				if _, isCall := ast.Unparen(defs[0]).(*ast.CallExpr); isCall {
					if x, ok := c.lenArg(defs[0]); ok && !c.reassigned(x) {
						return x, true
					}
				}
			}
		}
		return "", false
	}
	call, ok := ast.Unparen(e).(*ast.CallExpr)
	if !ok {
		return "", false
	}
	if isBuiltinCall(c.info(), call, "len") && len(call.Args) == 1 {
		return es(call.Args[0]), true
	}
	// counted accessors: x.NumFields(), x.Len(), x.NumMethods()
	if sel, ok := call.Fun.(*ast.SelectorExpr); ok && len(call.Args) == 0 {
		if fn := calleeOf(c.info(), call); fn != nil && fn.Pkg() != nil && fn.Pkg().Path() == "go/types" {
			switch sel.Sel.Name {
			case "NumFields", "Len", "NumMethods", "NumExplicitMethods", "NumEmbeddeds":
				return es(sel.X) + "#count", true
			}
		}
	}
	return "", false
}

func (c *oblCtx) constInt(e ast.Expr) (int, bool) {
	if tv, ok := c.info().Types[e]; ok && tv.Value != nil && tv.Value.Kind() == constant.Int {
		v, ok := constant.Int64Val(tv.Value)
		return int(v), ok
	}
	return 0, false
}

// condFacts: facts that hold when cond evaluates to truth.
func (c *oblCtx) condFacts(cond ast.Expr, truth bool) []fact {
	out := c.condFacts0(cond, truth)
	if be, ok := ast.Unparen(cond).(*ast.BinaryExpr); ok {
		switch be.Op {
		case token.GTR, token.GEQ, token.LSS, token.LEQ, token.EQL, token.NEQ:
			op := be.Op
			if !truth {
				op = negateTok(op)
			}
			out = append(out, fact{holds: es(be.X) + " " + op.String() + " " + es(be.Y)})
		}
	}
	return out
}

func (c *oblCtx) condFacts0(cond ast.Expr, truth bool) []fact {
	switch e := ast.Unparen(cond).(type) {
	case *ast.Ident:
		// the ok of an earlier `v, ok := x.(T)`: when it holds, x (and v) have dynamic type T and v is not nil
		if truth && c.okBind != nil {
			if as := c.okBind[objOf(c.info(), e)]; as != nil {
				if ta, ok := ast.Unparen(as.Rhs[0]).(*ast.TypeAssertExpr); ok && ta.Type != nil {
					if tt := c.info().TypeOf(ta.Type); tt != nil {
						out := []fact{{tyExpr: es(ta.X), tySet: []string{tt.String()}}}
						if v, ok := as.Lhs[0].(*ast.Ident); ok && v.Name != "_" {
							out = append(out, fact{tyExpr: v.Name, tySet: []string{tt.String()}}, fact{nonNil: v.Name}, fact{alias: v.Name, aliasOf: es(ta.X)})
						}
						return out
					}
				}
			}
		}
		// a boolean local bound once to a condition (`if ok := a && b; !ok {…}`) stands for that condition, as long as
		// nothing it mentions is assigned again
		if obj, isVar := objOf(c.info(), e).(*types.Var); isVar && !obj.IsField() && c.fn != nil && !c.reassigned(e.Name) {
			if b, isBasic := obj.Type().Underlying().(*types.Basic); isBasic && b.Kind() == types.Bool {
				if defs := c.defsOf(obj); len(defs) == 1 && defs[0] != nil {
					switch d := ast.Unparen(defs[0]).(type) {
					case *ast.BinaryExpr, *ast.UnaryExpr:
						stable := true
						ast.Inspect(d, func(x ast.Node) bool {
							if id, ok := x.(*ast.Ident); ok {
								if v, ok := objOf(c.info(), id).(*types.Var); ok && !v.IsField() && c.reassigned(id.Name) {
									stable = false
								}
							}
							return true
						})
						if stable {
							return c.condFacts(d, truth)
						}
					}
				}
			}
		}
	case *ast.UnaryExpr:
		if e.Op == token.NOT {
			return c.condFacts(e.X, !truth)
		}
	case *ast.BinaryExpr:
		switch e.Op {
		case token.LAND:
			if truth {
				return append(c.condFacts(e.X, true), c.condFacts(e.Y, true)...)
			}
			// !(a && b) is (!a || !b)
			if out := c.eitherLen(e.X, e.Y, false); out != nil {
				return out
			}
		case token.LOR:
			if !truth {
				return append(c.condFacts(e.X, false), c.condFacts(e.Y, false)...)
			}
			if out := c.eitherLen(e.X, e.Y, true); out != nil {
				return out
			}
		case token.GTR, token.GEQ, token.LSS, token.LEQ, token.EQL, token.NEQ:
			op := e.Op
			if !truth {
				op = negateTok(op)
			}
			x, y := e.X, e.Y
			// normalise: len/count on the left when compared with a constant
			if _, ok := c.lenArg(y); ok {
				if _, isConst := c.constInt(x); isConst {
					x, y = y, x
					op = flipTok(op)
				}
			}
			if lx, ok := c.lenArg(x); ok {
				if k, ok := c.constInt(y); ok {
					switch op {
					case token.GTR:
						return []fact{{lenOf: lx, min: k + 1}}
					case token.GEQ, token.EQL:
						return []fact{{lenOf: lx, min: k}}
					case token.NEQ:
						if k == 0 {
							return []fact{{lenOf: lx, min: 1}}
						}
					}
				}
			}
			// i < len(x)   /  len(x) > i
			if ly, ok := c.lenArg(y); ok && op == token.LSS {
				if _, isLen := c.lenArg(x); !isLen {
					return []fact{{idx: es(x), idxOf: ly}}
				}
			}
			if lx, ok := c.lenArg(x); ok && op == token.GTR {
				if _, isLen := c.lenArg(y); !isLen {
					return []fact{{idx: es(y), idxOf: lx}}
				}
			}
			// s != ""  → len(s) >= 1
			if tv, ok := c.info().Types[y]; ok && tv.Value != nil && tv.Value.Kind() == constant.String && constant.StringVal(tv.Value) == "" {
				if op == token.NEQ {
					return []fact{{lenOf: es(x), min: 1}}
				}
			}
			// x != nil
			if id, ok := ast.Unparen(y).(*ast.Ident); ok && id.Name == "nil" && op == token.NEQ {
				return []fact{{nonNil: es(x)}}
			}
		}
	}
	return nil
}

// eitherLen: one of two conditions holds (each taken with the given truth); when both bound the length of the same
// thing from below, the weaker bound holds (`n == 1 || n == 2` gives n >= 1).
func (c *oblCtx) eitherLen(a, b ast.Expr, truth bool) []fact {
	var out []fact
	for _, fa := range c.condFacts0(a, truth) {
		if fa.lenOf == "" {
			continue
		}
		for _, fb := range c.condFacts0(b, truth) {
			if fb.lenOf == fa.lenOf {
				m := fa.min
				if fb.min < m {
					m = fb.min
				}
				if m > 0 {
					out = append(out, fact{lenOf: fa.lenOf, min: m})
				}
			}
		}
	}
	return out
}

func terminates(b *ast.BlockStmt) bool {
	if b == nil || len(b.List) == 0 {
		return false
	}
	switch s := b.List[len(b.List)-1].(type) {
	case *ast.ReturnStmt:
		return true
	case *ast.BranchStmt:
		return s.Tok == token.CONTINUE || s.Tok == token.BREAK || s.Tok == token.GOTO
	case *ast.ExprStmt:
		if call, ok := s.X.(*ast.CallExpr); ok {
			f := es(call.Fun)
			return f == "panic" || f == "log.Fatal" || f == "log.Fatalf" || f == "log.Fatalln" || f == "os.Exit" || f == "log.Panic" || f == "log.Panicf"
		}
	case *ast.IfStmt:
		if s.Else == nil {
			return false
		}
		eb, ok := s.Else.(*ast.BlockStmt)
		if !ok {
			if ei, ok := s.Else.(*ast.IfStmt); ok {
				return terminates(s.Body) && terminates(&ast.BlockStmt{List: []ast.Stmt{ei}})
			}
			return false
		}
		return terminates(s.Body) && terminates(eb)
	}
	return false
}

func markCommaOk(root ast.Node, m map[ast.Node]bool) {
	ast.Inspect(root, func(n ast.Node) bool {
		switch n := n.(type) {
		case *ast.AssignStmt:
			if len(n.Lhs) == 2 && len(n.Rhs) == 1 {
				m[ast.Unparen(n.Rhs[0])] = true
			}
		case *ast.ValueSpec:
			if len(n.Names) == 2 && len(n.Values) == 1 {
				m[ast.Unparen(n.Values[0])] = true
			}
		}
		return true
	})
}

func (c *oblCtx) minLen(x string) int {
	m := -1
	for _, f := range c.facts {
		if f.lenOf == x && f.lenOf != "" && f.min > m {
			m = f.min
		}
	}
	return m
}

func (c *oblCtx) add(rule string, n ast.Node, construct, verdict, how string, nontrivial bool) {
	*c.out = append(*c.out, Ob{Rule: rule, Func: c.fname, Construct: construct, Pos: c.w.Pos(n.Pos()), Verdict: verdict, How: how, Nontrivial: nontrivial})
}

// assignments to a local `name` inside the current function: returns RHS expressions.
func (c *oblCtx) defsOf(obj types.Object) []ast.Expr {
	var out []ast.Expr
	if c.fn == nil || obj == nil {
		return nil
	}
	ast.Inspect(c.fn, func(n ast.Node) bool {
		switch n := n.(type) {
		case *ast.AssignStmt:
			if len(n.Lhs) == len(n.Rhs) {
				for i, l := range n.Lhs {
					if id, ok := l.(*ast.Ident); ok && objOf(c.info(), id) == obj {
						out = append(out, n.Rhs[i])
					}
				}
			} else if len(n.Rhs) == 1 {
				for _, l := range n.Lhs {
					if id, ok := l.(*ast.Ident); ok && objOf(c.info(), id) == obj {
						out = append(out, n.Rhs[0])
					}
				}
			}
		case *ast.ValueSpec:
			for i, nm := range n.Names {
				if c.info().Defs[nm] == obj {
					if i < len(n.Values) {
						out = append(out, n.Values[i])
					} else if len(n.Values) == 1 {
						out = append(out, n.Values[0])
					} else {
						out = append(out, nil) // zero value
					}
				}
			}
		}
		return true
	})
	return out
}

// sameLen: a was made with len(b) and is never re-assigned otherwise.
func (c *oblCtx) sameLen(a ast.Expr, b string) bool {
	if es(a) == b {
		return true
	}
	id, ok := ast.Unparen(a).(*ast.Ident)
	if !ok {
		return false
	}
	defs := c.defsOf(objOf(c.info(), id))
	if len(defs) != 1 || defs[0] == nil {
		return false
	}
	base, extra, ok := c.madeLen(a)
	return ok && base == b && extra >= 0
}

// madeLen: a is a local defined once by make([]T, len(R)) or make([]T, len(R)+k) with a constant k; returns the
// rendering of R and k.
func (c *oblCtx) madeLen(a ast.Expr) (string, int, bool) {
	id, ok := ast.Unparen(a).(*ast.Ident)
	if !ok {
		return "", 0, false
	}
	defs := c.defsOf(objOf(c.info(), id))
	if len(defs) != 1 || defs[0] == nil {
		return "", 0, false
	}
	call, ok := defs[0].(*ast.CallExpr)
	if !ok || !isBuiltinCall(c.info(), call, "make") || len(call.Args) != 2 {
		return "", 0, false
	}
	size := ast.Unparen(call.Args[1])
	if la, ok := c.lenArg(size); ok {
		return la, 0, true
	}
	if be, ok := size.(*ast.BinaryExpr); ok && be.Op == token.ADD {
		for _, pr := range [][2]ast.Expr{{be.X, be.Y}, {be.Y, be.X}} {
			if la, ok := c.lenArg(pr[0]); ok {
				if k, isK := c.constInt(pr[1]); isK && k >= 0 {
					return la, k, true
				}
			}
		}
	}
	return "", 0, false
}

// regexpOf resolves a package-level `var re = regexp.MustCompile(const)` to its pattern.
func (c *oblCtx) regexpOf(e ast.Expr) (*regexp.Regexp, string, bool) {
	id, ok := ast.Unparen(e).(*ast.Ident)
	if !ok {
		return nil, "", false
	}
	obj := c.info().Uses[id]
	if obj == nil {
		return nil, "", false
	}
	for _, f := range c.pkg.Syntax {
		for _, d := range f.Decls {
			gd, ok := d.(*ast.GenDecl)
			if !ok {
				continue
			}
			for _, sp := range gd.Specs {
				vs, ok := sp.(*ast.ValueSpec)
				if !ok {
					continue
				}
				for i, nm := range vs.Names {
					if c.info().Defs[nm] != obj || i >= len(vs.Values) {
						continue
					}
					mc, ok := vs.Values[i].(*ast.CallExpr)
					if !ok || len(mc.Args) != 1 {
						continue
					}
					if fn := calleeOf(c.info(), mc); fn == nil || fn.FullName() != "regexp.MustCompile" {
						continue
					}
					if tv := c.info().Types[mc.Args[0]]; tv.Value != nil && tv.Value.Kind() == constant.String {
						pat := constant.StringVal(tv.Value)
						re, err := regexp.Compile(pat)
						if err == nil {
							return re, pat, true
						}
					}
				}
			}
		}
	}
	return nil, "", false
}

// minMatchLen computes the minimal byte length of any match of pattern.
func minMatchLen(pat string) int {
	re, err := syntax.Parse(pat, syntax.Perl)
	if err != nil {
		return 0
	}
	var walk func(r *syntax.Regexp) int
	walk = func(r *syntax.Regexp) int {
		switch r.Op {
		case syntax.OpLiteral:
			n := 0
			for _, ru := range r.Rune {
				n += len(string(ru))
			}
			if r.Flags&syntax.FoldCase != 0 {
				return len(r.Rune) // conservative: 1 byte per rune
			}
			return n
		case syntax.OpCharClass, syntax.OpAnyCharNotNL, syntax.OpAnyChar:
			return 1
		case syntax.OpCapture:
			return walk(r.Sub[0])
		case syntax.OpConcat:
			n := 0
			for _, s := range r.Sub {
				n += walk(s)
			}
			return n
		case syntax.OpAlternate:
			m := -1
			for _, s := range r.Sub {
				if k := walk(s); m < 0 || k < m {
					m = k
				}
			}
			if m < 0 {
				m = 0
			}
			return m
		case syntax.OpPlus:
			return walk(r.Sub[0])
		case syntax.OpRepeat:
			return r.Min * walk(r.Sub[0])
		}
		return 0 // star, quest, empty, anchors
	}
	return walk(re)
}

// submatchInfo: is e a variable holding the result of re.FindStringSubmatch (or an element of
// FindAllStringSubmatch)? returns the number of groups.
func (c *oblCtx) submatchInfo(e ast.Expr) (groups int, elem bool, ok bool) {
	id, isId := ast.Unparen(e).(*ast.Ident)
	if !isId || c.fn == nil {
		return 0, false, false
	}
	obj := objOf(c.info(), id)
	reCall := func(x ast.Expr, method string) (int, bool) {
		call, ok := x.(*ast.CallExpr)
		if !ok {
			return 0, false
		}
		fn := calleeOf(c.info(), call)
		if fn == nil || fn.FullName() != "(*regexp.Regexp)."+method {
			return 0, false
		}
		sel := call.Fun.(*ast.SelectorExpr)
		re, _, ok := c.regexpOf(sel.X)
		if !ok {
			return 0, false
		}
		return re.NumSubexp(), true
	}
	defs := c.defsOf(obj)
	if len(defs) == 1 && defs[0] != nil {
		if g, ok := reCall(defs[0], "FindStringSubmatch"); ok {
			// applied to a match of the very same expression (the parameter of the callback of its
			// ReplaceAllStringFunc), the search cannot fail — provided the expression has no empty-width assertion
			// (^ $ \b \B), whose outcome depends on the text around the match
			if c.ownMatch(defs[0].(*ast.CallExpr)) {
				return g, true, true
			}
			return g, false, true
		}
	}
	// range value over a FindAllStringSubmatch result
	found := false
	ast.Inspect(c.fn, func(n ast.Node) bool {
		rs, ok := n.(*ast.RangeStmt)
		if !ok {
			return true
		}
		vid, ok := rs.Value.(*ast.Ident)
		if !ok || c.info().Defs[vid] != obj {
			return true
		}
		if g, ok := reCall(rs.X, "FindAllStringSubmatch"); ok {
			groups, found = g, true
			return true
		}
		if rid, ok := rs.X.(*ast.Ident); ok {
			d := c.defsOf(objOf(c.info(), rid))
			if len(d) == 1 && d[0] != nil {
				if g, ok := reCall(d[0], "FindAllStringSubmatch"); ok {
					groups, found = g, true
				}
			}
		}
		return true
	})
	if found {
		return groups, true, true
	}
	return 0, false, false
}

func (c *oblCtx) checkExpr(e ast.Expr) {
	if e == nil {
		return
	}
	ast.Inspect(e, func(n ast.Node) bool {
		switch n := n.(type) {
		case *ast.CallExpr:
			fn := calleeOf(c.info(), n)
			full := fullName(fn)
			if (full == "sort.Slice" || full == "sort.SliceStable") && len(n.Args) == 2 {
				if fl, ok := n.Args[1].(*ast.FuncLit); ok {
					c.checkExpr(n.Args[0])
					saved := c.facts
					for _, prm := range fl.Type.Params.List {
						for _, nm := range prm.Names {
							c.facts = append(c.facts, fact{idx: nm.Name, idxOf: es(n.Args[0])})
						}
					}
					c.walkBlock(fl.Body)
					c.facts = saved
					return false
				}
			}
			if full == "(*regexp.Regexp).ReplaceAllStringFunc" && len(n.Args) == 2 {
				if fl, ok := n.Args[1].(*ast.FuncLit); ok {
					sel := n.Fun.(*ast.SelectorExpr)
					c.checkExpr(n.Args[0])
					saved := c.facts
					if _, pat, ok := c.regexpOf(sel.X); ok && len(fl.Type.Params.List) == 1 && len(fl.Type.Params.List[0].Names) == 1 {
						c.facts = append(c.facts, fact{lenOf: fl.Type.Params.List[0].Names[0].Name, min: minMatchLen(pat)})
					}
					c.walkBlock(fl.Body)
					c.facts = saved
					return false
				}
			}
			c.checkAccessor(n, fn)
			c.checkNilRecv(n, fn)
			c.checkPre(n, fn)
		case *ast.FuncLit:
			saved := c.facts
			c.walkBlock(n.Body)
			c.facts = saved
			return false
		case *ast.BinaryExpr:
			if n.Op == token.LAND || n.Op == token.LOR {
				c.checkExpr(n.X)
				saved := c.facts
				c.facts = append(append([]fact{}, saved...), c.condFacts(n.X, n.Op == token.LAND)...)
				c.checkExpr(n.Y)
				c.facts = saved
				return false
			}
		case *ast.TypeAssertExpr:
			if n.Type == nil || c.commaOk[n] {
				return true
			}
			c.obligAssert(n)
		case *ast.IndexExpr:
			t := c.info().TypeOf(n.X)
			if t == nil {
				return true
			}
			if tv, ok := c.info().Types[n.X]; ok && tv.IsType() {
				return true // generic instantiation
			}
			if _, isFn := c.info().TypeOf(n.X).Underlying().(*types.Signature); isFn {
				return true
			}
			switch u := t.Underlying().(type) {
			case *types.Slice, *types.Array, *types.Basic:
				c.obligIndex(n)
			case *types.Pointer:
				if _, ok := u.Elem().Underlying().(*types.Array); ok {
					c.obligIndex(n)
				}
			}
		case *ast.SliceExpr:
			c.obligSlice(n)
		case *ast.SelectorExpr:
			c.checkNilSel(n)
		}
		return true
	})
}

func (c *oblCtx) tyFacts(x string) []string {
	for i := len(c.facts) - 1; i >= 0; i-- {
		if c.facts[i].tyExpr == x && c.facts[i].tyExpr != "" {
			return c.facts[i].tySet
		}
	}
	return nil
}

// namedKinds: node kinds whose Type() method returns a *types.Named field (computed from the source).
func (c *oblCtx) typeMethodReturnsNamed(t types.Type) bool {
	fi := methodOf(c.w, t, "Type")
	if fi == nil {
		return false
	}
	st := singleReturnStaticType(fi)
	return st == "*go/types.Named"
}

func methodOf(w *World, t types.Type, name string) *FuncInfo {
	ms := types.NewMethodSet(t)
	sel := ms.Lookup(nil, name)
	if sel == nil {
		for i := 0; i < ms.Len(); i++ {
			if ms.At(i).Obj().Name() == name {
				sel = ms.At(i)
			}
		}
	}
	if sel == nil {
		return nil
	}
	fn, _ := sel.Obj().(*types.Func)
	if fn == nil {
		return nil
	}
	return w.Funcs[fn]
}

// singleReturnStaticType: all returns of fi have one result with the same static type.
func singleReturnStaticType(fi *FuncInfo) string {
	var rets []string
	ast.Inspect(fi.Decl.Body, func(n ast.Node) bool {
		if _, ok := n.(*ast.FuncLit); ok {
			return false
		}
		if r, ok := n.(*ast.ReturnStmt); ok {
			if len(r.Results) != 1 {
				rets = append(rets, "?")
				return true
			}
			if t := fi.Pkg.TypesInfo.TypeOf(r.Results[0]); t != nil {
				rets = append(rets, t.String())
			} else {
				rets = append(rets, "?")
			}
		}
		return true
	})
	if len(rets) == 0 {
		return ""
	}
	for _, r := range rets {
		if r != rets[0] {
			return ""
		}
	}
	return rets[0]
}

func (c *oblCtx) obligAssert(n *ast.TypeAssertExpr) {
	target := c.info().TypeOf(n.Type)
	construct := es(n)
	x := ast.Unparen(n.X)
	if target == nil {
		c.add("OBL-ASSERT", n, construct, VViolation, "assertion target type unknown", true)
		return
	}
	// A1: inside a matching case of a type switch / after narrowing
	if set := c.tyFacts(es(x)); len(set) == 1 && set[0] == target.String() {
		c.add("OBL-ASSERT", n, construct, VOK, "A1: inside the type-switch case for exactly this type", true)
		return
	}
	if call, ok := x.(*ast.CallExpr); ok {
		if sel, ok := call.Fun.(*ast.SelectorExpr); ok {
			fn := calleeOf(c.info(), call)
			if fn != nil && sel.Sel.Name == "Type" && target.String() == "*go/types.Named" {
				if how, ok := c.namedKindExpr(sel.X); ok {
					c.add("OBL-ASSERT", n, construct, VOK, how, true)
					return
				}
			}
			if fn != nil {
				if fi := c.w.Funcs[fn]; fi != nil {
					if rt := singleReturnStaticType(fi); rt != "" && rt == target.String() {
						c.add("OBL-ASSERT", n, construct, VOK, "A4: callee's only return expression has static type "+rt, true)
						return
					}
				}
				if fn.FullName() == "(*go/types.Basic).Underlying" && target.String() == "*go/types.Basic" {
					c.add("OBL-ASSERT", n, construct, VOK, "A5: (*types.Basic).Underlying() is the receiver itself", true)
					return
				}
			}
		}
	}
	if why, ok := c.justifiedFor(n, construct); ok {
		c.add("OBL-ASSERT", n, construct, VJustified, why, true)
		return
	}
	c.add("OBL-ASSERT", n, construct, VViolation, "single-value type assertion whose success is not established on this path (no enclosing case, no callee guarantee, no justified invariant): a runtime panic 'interface conversion' instead of a diagnostic", true)
}

// namedKindExpr: e evaluates to an analysis node whose Type() is a *types.Named.
func (c *oblCtx) namedKindExpr(e ast.Expr) (string, bool) {
	e = ast.Unparen(e)
	rt := c.info().TypeOf(e)
	if rt != nil && c.typeMethodReturnsNamed(rt) {
		return "A2: receiver's Type() body returns a *types.Named field", true
	}
	if set := c.tyFacts(es(e)); len(set) > 0 {
		all := true
		for _, tn := range set {
			if tt := c.lookupTypeString(tn); tt == nil || !c.typeMethodReturnsNamed(tt) {
				all = false
			}
		}
		if all {
			return "A3: every type of the enclosing case list has a Type() returning *types.Named", true
		}
	}
	// A6: element of (*analysis.Union).Members / (*analysis.Struct).Implements
	if id, ok := e.(*ast.Ident); ok && c.fn != nil {
		obj := objOf(c.info(), id)
		found := ""
		ast.Inspect(c.fn, func(n ast.Node) bool {
			rs, ok := n.(*ast.RangeStmt)
			if !ok {
				return true
			}
			vid, ok := rs.Value.(*ast.Ident)
			if !ok || c.info().Defs[vid] != obj {
				return true
			}
			if sel, ok := ast.Unparen(rs.X).(*ast.SelectorExpr); ok {
				if v, ok := c.info().Uses[sel.Sel].(*types.Var); ok && v.IsField() && c.w.Rel(v.Pkg()) == "analysis" {
					if v.Name() == "Members" && strings.HasSuffix(c.info().TypeOf(sel.X).String(), "analysis.Union") {
						found = "A6: element of Union.Members (members are built from []*types.Named; side condition AGR-C11 checks the constructor)"
					}
				}
			}
			return true
		})
		if found != "" {
			return found, true
		}
	}
	return "", false
}

func (c *oblCtx) lookupTypeString(s string) types.Type {
	// s like "*github.com/benoitkugler/gomacro/analysis.Struct"
	ptr := strings.HasPrefix(s, "*")
	s = strings.TrimPrefix(s, "*")
	i := strings.LastIndex(s, ".")
	if i < 0 {
		return nil
	}
	path, name := s[:i], s[i+1:]
	for _, p := range c.w.Pkgs {
		if p.PkgPath == path {
			if obj := p.Types.Scope().Lookup(name); obj != nil {
				if ptr {
					return types.NewPointer(obj.Type())
				}
				return obj.Type()
			}
		}
	}
	return nil
}

func (c *oblCtx) idxBound(i string, of ast.Expr) (string, bool) {
	for _, f := range c.facts {
		if f.idx == i && f.idx != "" {
			if f.idxOf == "@sortiface" {
				return "I3: index parameter of a sort.Interface method on the field Len() measures", true
			}
			if c.sameLen(of, f.idxOf) {
				// an upper bound is half of the obligation when the index is a search result: -1 passes `i < len`
				if src := c.mayBeNegative(i); src != "" && !c.nonNegative(i) {
					continue
				}
				return "I1: index bounded by len(" + f.idxOf + ")", true
			}
			// the index ranges over a slice that was made with exactly len(of) elements
			if base, extra, ok := c.madeLenOfName(f.idxOf); ok && extra == 0 && base == es(of) && !c.reassigned(es(of)) {
				return "I1: index bounded by len(" + f.idxOf + "), made with len(" + base + ") elements", true
			}
		}
	}
	// i := slices.Index*(of, …) (or strings.Index*) with the not-found value excluded on the way here
	if how, ok := c.foundIndex(i, of); ok {
		return how, true
	}
	return "", false
}

// madeLenOfName: madeLen for a variable given by name (a fact's idxOf).
func (c *oblCtx) madeLenOfName(name string) (string, int, bool) {
	if c.fn == nil {
		return "", 0, false
	}
	var id *ast.Ident
	ast.Inspect(c.fn, func(x ast.Node) bool {
		if i, ok := x.(*ast.Ident); ok && i.Name == name && id == nil {
			if _, isVar := objOf(c.info(), i).(*types.Var); isVar {
				id = i
			}
		}
		return id == nil
	})
	if id == nil {
		return "", 0, false
	}
	return c.madeLen(id)
}

// foundIndex: the index variable is bound once to slices.Index / slices.IndexFunc / slices.BinarySearch-free search
// of the indexed slice, and the "not found" result (-1, or any negative value) leaves before this point.
func (c *oblCtx) foundIndex(i string, of ast.Expr) (string, bool) {
	if c.fn == nil {
		return "", false
	}
	var obj types.Object
	var def ast.Expr
	n := 0
	ast.Inspect(c.fn, func(x ast.Node) bool {
		as, ok := x.(*ast.AssignStmt)
		if !ok || len(as.Lhs) != 1 || len(as.Rhs) != 1 {
			return true
		}
		if id := identOf(as.Lhs[0]); id != nil && id.Name == i {
			n++
			obj = objOf(c.info(), id)
			def = as.Rhs[0]
		}
		return true
	})
	if n != 1 || def == nil || obj == nil {
		return "", false
	}
	call, ok := ast.Unparen(def).(*ast.CallExpr)
	if !ok || len(call.Args) < 1 {
		return "", false
	}
	switch fullName(calleeOf(c.info(), call)) {
	case "slices.Index", "slices.IndexFunc":
	default:
		return "", false
	}
	if es(call.Args[0]) != es(of) || c.reassigned(es(of)) {
		return "", false
	}
	// a dominating fact excludes the negative result: `i >= 0` holds (recorded by the walker from `if i == -1 {exit}`,
	// `if i < 0 {exit}`, `if i >= 0 {…}`)
	for _, f := range c.facts {
		if f.holds == i+" >= 0" || f.holds == i+" != -1" || f.holds == "!("+i+" == -1)" || f.holds == "!("+i+" < 0)" {
			return "I7: " + i + " is the position slices.Index* found in " + es(of) + ", and the not-found result has left before this point", true
		}
	}
	return "", false
}

// mayBeNegative: the local variable i is defined (somewhere in the function) from a search that answers -1 when
// nothing is found. Returns the name of that search, "" otherwise.
func (c *oblCtx) mayBeNegative(i string) string {
	if c.fn == nil {
		return ""
	}
	src := ""
	ast.Inspect(c.fn, func(x ast.Node) bool {
		as, ok := x.(*ast.AssignStmt)
		if !ok || len(as.Lhs) != len(as.Rhs) {
			return true
		}
		for k, l := range as.Lhs {
			id := identOf(l)
			if id == nil || id.Name != i {
				continue
			}
			if call, ok := ast.Unparen(as.Rhs[k]).(*ast.CallExpr); ok {
				full := fullName(calleeOf(c.info(), call))
				for _, pre := range []string{"slices.Index", "strings.Index", "strings.LastIndex", "bytes.Index", "bytes.LastIndex"} {
					if strings.HasPrefix(full, pre) {
						src = full
					}
				}
			}
		}
		return true
	})
	return src
}

// nonNegative: a dominating fact excludes the negative values of i.
func (c *oblCtx) nonNegative(i string) bool {
	for _, f := range c.facts {
		switch f.holds {
		case i + " >= 0", i + " != -1", "!(" + i + " == -1)", "!(" + i + " < 0)", i + " > -1", "!(" + i + " <= -1)":
			return true
		}
	}
	return false
}

func (c *oblCtx) obligIndex(n *ast.IndexExpr) {
	x := es(n.X)
	construct := es(n)
	if k, ok := c.constInt(n.Index); ok {
		if m := c.minLen(x); m > k {
			c.add("OBL-INDEX", n, construct, VOK, fmt.Sprintf("I2: dominating guard gives len(%s) >= %d", x, m), true)
			return
		}
		t := c.info().TypeOf(n.X).Underlying()
		if p, ok := t.(*types.Pointer); ok {
			t = p.Elem().Underlying()
		}
		if at, ok := t.(*types.Array); ok && int64(k) < at.Len() && k >= 0 {
			c.add("OBL-INDEX", n, construct, VOK, "I5: constant index into a fixed-size array", false)
			return
		}
		if g, elem, ok := c.submatchInfo(n.X); ok && k <= g && k >= 0 {
			if elem {
				c.add("OBL-INDEX", n, construct, VOK, fmt.Sprintf("I4: element of FindAllStringSubmatch of a constant pattern with %d groups", g), true)
				return
			}
			if c.minLen(x) >= 1 {
				c.add("OBL-INDEX", n, construct, VOK, fmt.Sprintf("I4: non-empty FindStringSubmatch of a constant pattern with %d groups", g), true)
				return
			}
		}
	} else {
		if how, ok := c.idxBound(es(n.Index), n.X); ok {
			c.add("OBL-INDEX", n, construct, VOK, how, true)
			return
		}
		// x[len(x)-k] (also through a local bound to len(x)) with 1 <= k <= the guaranteed length
		if be, ok := ast.Unparen(n.Index).(*ast.BinaryExpr); ok && be.Op == token.SUB {
			if la, ok := c.lenArg(be.X); ok && la == x && !c.reassigned(x) {
				if k, ok := c.constInt(be.Y); ok && k >= 1 && c.minLen(x) >= k {
					c.add("OBL-INDEX", n, construct, VOK, fmt.Sprintf("I10: index len(%s)-%d with len(%s) >= %d from a dominating guard", x, k, x, c.minLen(x)), true)
					return
				}
			}
		}
		// xs := make([]T, len(R)+k), k >= 1: xs[len(R)] exists
		if la, ok := c.lenArg(n.Index); ok {
			if base, extra, ok := c.madeLen(n.X); ok && base == la && extra >= 1 {
				c.add("OBL-INDEX", n, construct, VOK, fmt.Sprintf("I6: %s is made with len(%s)+%d elements", x, la, extra), true)
				return
			}
		}
		// types.Typ[kind]
		if sel, ok := n.X.(*ast.SelectorExpr); ok {
			if v, ok := c.info().Uses[sel.Sel].(*types.Var); ok && v.Pkg() != nil && v.Pkg().Path() == "go/types" && v.Name() == "Typ" {
				if tv := c.info().Types[n.Index]; tv.Value != nil {
					c.add("OBL-INDEX", n, construct, VOK, "I5: types.Typ indexed by a BasicKind constant", false)
					return
				}
				if kc, ok := ast.Unparen(n.Index).(*ast.CallExpr); ok && fullName(calleeOf(c.info(), kc)) == "(*go/types.Basic).Kind" {
					c.add("OBL-INDEX", n, construct, VOK, "I5: types.Typ indexed by the Kind() of a *types.Basic: the table has an entry for every kind go/types creates", true)
					return
				}
			}
		}
	}
	if sel, ok := n.X.(*ast.SelectorExpr); ok {
		if v, ok := c.info().Uses[sel.Sel].(*types.Var); ok && v.Pkg() != nil && v.Pkg().Path() == "go/types" && v.Name() == "Typ" {
			if tv := c.info().Types[n.Index]; tv.Value != nil {
				c.add("OBL-INDEX", n, construct, VOK, "I5: types.Typ indexed by a BasicKind constant", false)
				return
			}
		}
	}
	if how, ok := c.groupParamIndex(n); ok {
		c.add("OBL-INDEX", n, construct, VOK, how, true)
		return
	}
	if why, ok := c.justifiedFor(n, construct); ok {
		c.add("OBL-INDEX", n, construct, VJustified, why, true)
		return
	}
	c.add("OBL-INDEX", n, construct, VViolation, "index expression not covered by a dominating bound (range key, length guard, counted loop, regexp groups): 'index out of range' at run time", true)
}

func (c *oblCtx) obligSlice(n *ast.SliceExpr) {
	x := es(n.X)
	construct := es(n)
	lo, hi := 0, -1
	allConst := true
	if n.Low != nil {
		if k, ok := c.constInt(n.Low); ok {
			lo = k
		} else {
			allConst = false
		}
	}
	if n.High != nil {
		if k, ok := c.constInt(n.High); ok {
			hi = k
		} else {
			allConst = false
		}
	}
	need := lo
	if hi > need {
		need = hi
	}
	if allConst && need == 0 {
		c.add("OBL-SLICE", n, construct, VOK, "S0: s[:] / s[0:] cannot fail", false)
		return
	}
	if allConst && c.minLen(x) >= need && (hi < 0 || lo <= hi) {
		c.add("OBL-SLICE", n, construct, VOK, fmt.Sprintf("S1: dominating guard gives len(%s) >= %d", x, c.minLen(x)), true)
		return
	}
	// s[:i] / s[i:] with i < len(s) from a loop condition or guard
	bounded := func(e ast.Expr) bool {
		if e == nil {
			return true
		}
		if k, ok := c.constInt(e); ok {
			return c.minLen(x) >= k
		}
		if _, ok := c.idxBound(es(e), n.X); ok {
			return true
		}
		// a local every definition of which is len(x), a position inside x (the key of a range over x) or zero:
		// it never exceeds len(x), which is all a slice bound needs
		if id := identOf(e); id != nil && c.fn != nil && !c.reassigned(x) {
			if obj, isVar := objOf(c.info(), id).(*types.Var); isVar && !obj.IsField() && !c.stepped(obj) {
				defs := c.defsOf(obj)
				all := len(defs) > 0
				for _, d := range defs {
					okDef := false
					if d == nil {
						okDef = true // zero value
					} else if k, ok := c.constInt(d); ok && k == 0 {
						okDef = true
					} else if la, ok := c.lenArg(d); ok && la == x {
						okDef = true
					} else if kid := identOf(d); kid != nil {
						kobj := objOf(c.info(), kid)
						ast.Inspect(c.fn, func(m ast.Node) bool {
							if rs, ok := m.(*ast.RangeStmt); ok && rs.Key != nil && identOf(rs.Key) != nil && c.info().Defs[identOf(rs.Key)] == kobj && es(rs.X) == x {
								okDef = true
							}
							return true
						})
						if okDef && c.reassigned(kid.Name) {
							okDef = false
						}
					}
					if !okDef {
						all = false
					}
				}
				if all {
					return true
				}
			}
		}
		// len(x)-k with len(x) >= k
		if be, ok := ast.Unparen(e).(*ast.BinaryExpr); ok && be.Op == token.SUB {
			if l, ok := c.lenArg(be.X); ok && l == x {
				if k, ok := c.constInt(be.Y); ok && c.minLen(x) >= k {
					return true
				}
			}
		}
		// n from utf8.DecodeRuneInString(x) after an emptiness guard
		if id, ok := ast.Unparen(e).(*ast.Ident); ok {
			for _, d := range c.defsOf(objOf(c.info(), id)) {
				if call, ok := d.(*ast.CallExpr); ok {
					if fn := calleeOf(c.info(), call); fn != nil && fn.FullName() == "unicode/utf8.DecodeRuneInString" && len(call.Args) == 1 && es(call.Args[0]) == x {
						return true // the returned width never exceeds len(x)
					}
				}
			}
		}
		return false
	}
	if bounded(n.Low) && bounded(n.High) && n.Max == nil {
		// low <= high must also hold when both are given and not constant
		okOrder := true
		if n.Low != nil && n.High != nil {
			l, lok := c.constInt(n.Low)
			h, hok := c.constInt(n.High)
			if lok && hok {
				okOrder = l <= h
			} else if lok {
				// high is len(x)-k: need len(x)-k >= l  i.e. len(x) >= k+l
				okOrder = false
				if be, ok := ast.Unparen(n.High).(*ast.BinaryExpr); ok && be.Op == token.SUB {
					if k, ok := c.constInt(be.Y); ok && c.minLen(x) >= k+l {
						okOrder = true
					}
				}
			} else {
				okOrder = false
			}
		}
		if okOrder {
			c.add("OBL-SLICE", n, construct, VOK, "S2: both bounds are dominated by a length guard / bounded index", true)
			return
		}
	}
	if why, ok := c.justifiedFor(n, construct); ok {
		c.add("OBL-SLICE", n, construct, VJustified, why, true)
		return
	}
	c.add("OBL-SLICE", n, construct, VViolation, "slice bounds not covered by a dominating length guard: 'slice bounds out of range' at run time for short inputs", true)
}

// positional go/types accessors: Field(i), At(i), Method(i), Tag(i)
func (c *oblCtx) checkAccessor(call *ast.CallExpr, fn *types.Func) {
	if fn == nil || fn.Pkg() == nil || fn.Pkg().Path() != "go/types" || len(call.Args) != 1 {
		return
	}
	switch fn.Name() {
	case "Field", "At", "Method", "Tag", "ExplicitMethod", "EmbeddedType":
	default:
		return
	}
	sig := fn.Type().(*types.Signature)
	if sig.Recv() == nil || sig.Params().Len() != 1 {
		return
	}
	if b, ok := sig.Params().At(0).Type().Underlying().(*types.Basic); !ok || b.Info()&types.IsInteger == 0 {
		return
	}
	sel := call.Fun.(*ast.SelectorExpr)
	recv := es(sel.X)
	construct := es(call)
	if k, ok := c.constInt(call.Args[0]); ok {
		if c.minLen(recv+"#count") > k {
			c.add("OBL-ACCESSOR", call, construct, VOK, fmt.Sprintf("P2: dominating count test gives at least %d elements", c.minLen(recv+"#count")), true)
			return
		}
	} else {
		i := es(call.Args[0])
		for _, f := range c.facts {
			if f.idx == i && f.idxOf == recv+"#count" {
				c.add("OBL-ACCESSOR", call, construct, VOK, "P1: counted loop / range up to the receiver's own count", true)
				return
			}
		}
	}
	// an index computed from a loop variable over a constant range: `for i := range 2 { … Field(i) … Field(1 - i) }`
	if lo, hi, ok := c.intRange(call.Args[0]); ok && lo >= 0 && c.minLen(recv+"#count") > hi {
		c.add("OBL-ACCESSOR", call, construct, VOK, fmt.Sprintf("P3: the index lies in [%d, %d] and a dominating count test gives at least %d elements", lo, hi, c.minLen(recv+"#count")), true)
		return
	}
	if why, ok := c.justifiedFor(call, construct); ok {
		c.add("OBL-ACCESSOR", call, construct, VJustified, why, true)
		return
	}
	c.add("OBL-ACCESSOR", call, construct, VViolation, "positional go/types accessor whose index is not bounded by the receiver's count", true)
}

// reassigned: the variable named x (a plain identifier) is assigned more than once in the function.
func (c *oblCtx) reassigned(x string) bool {
	if c.fn == nil || strings.ContainsAny(x, ".[(#") {
		return false
	}
	n := 0
	ast.Inspect(c.fn, func(m ast.Node) bool {
		if as, ok := m.(*ast.AssignStmt); ok {
			for _, l := range as.Lhs {
				if es(l) == x {
					n++
				}
			}
		}
		return true
	})
	return n > 1
}

// justifiedFor looks a construct up in the table of justified obligations, by the function and the construct rendered
// with its local variables replaced by their types (renaming a local, a parameter or a receiver keeps the entry).
func (c *oblCtx) justifiedFor(e ast.Expr, construct string) (string, bool) {
	if why, ok := justifiedOBL[c.fname+"|"+normLocals(c.info(), e)]; ok {
		return why, true
	}
	return "", false
}

// ownMatch: call is re.FindStringSubmatch(p) with p the (never re-assigned) parameter of a function literal passed to
// re.ReplaceAllStringFunc for the same package-level re, and re contains no empty-width assertion.
func (c *oblCtx) ownMatch(call *ast.CallExpr) bool {
	info := c.info()
	sel, ok := call.Fun.(*ast.SelectorExpr)
	if !ok || len(call.Args) != 1 || identOf(sel.X) == nil || identOf(call.Args[0]) == nil {
		return false
	}
	reObj := objOf(info, identOf(sel.X))
	_, pat, ok := c.regexpOf(sel.X)
	if !ok {
		return false
	}
	tree, err := syntax.Parse(pat, syntax.Perl)
	if err != nil {
		return false
	}
	var hasAssert func(r *syntax.Regexp) bool
	hasAssert = func(r *syntax.Regexp) bool {
		switch r.Op {
		case syntax.OpBeginLine, syntax.OpEndLine, syntax.OpBeginText, syntax.OpEndText, syntax.OpWordBoundary, syntax.OpNoWordBoundary:
			return true
		}
		for _, sub := range r.Sub {
			if hasAssert(sub) {
				return true
			}
		}
		return false
	}
	if hasAssert(tree) {
		return false
	}
	p := objOf(info, identOf(call.Args[0]))
	found := false
	ast.Inspect(c.fn, func(x ast.Node) bool {
		outer, ok := x.(*ast.CallExpr)
		if !ok || len(outer.Args) != 2 || fullName(calleeOf(info, outer)) != "(*regexp.Regexp).ReplaceAllStringFunc" {
			return true
		}
		osel, ok := outer.Fun.(*ast.SelectorExpr)
		if !ok || identOf(osel.X) == nil || objOf(info, identOf(osel.X)) != reObj {
			return true
		}
		lit, ok := outer.Args[1].(*ast.FuncLit)
		if !ok || lit.Type.Params.NumFields() != 1 || len(lit.Type.Params.List[0].Names) != 1 || info.Defs[lit.Type.Params.List[0].Names[0]] != p {
			return true
		}
		if !(lit.Body.Pos() <= call.Pos() && call.End() <= lit.Body.End()) {
			return true
		}
		assigned := false
		ast.Inspect(lit.Body, func(y ast.Node) bool {
			if as, ok := y.(*ast.AssignStmt); ok {
				for _, l := range as.Lhs {
					if id := identOf(l); id != nil && objOf(info, id) == p {
						assigned = true
					}
				}
			}
			return true
		})
		if !assigned {
			found = true
		}
		return true
	})
	return found
}

// intRange bounds an integer expression built from constants, `+`/`-`, and variables that range over a constant
// number of iterations (`for i := range N`, never assigned in the body).
func (c *oblCtx) intRange(e ast.Expr) (lo, hi int, ok bool) {
	e = ast.Unparen(e)
	if k, isK := c.constInt(e); isK {
		return k, k, true
	}
	switch v := e.(type) {
	case *ast.Ident:
		if c.fn == nil {
			return 0, 0, false
		}
		obj := objOf(c.info(), v)
		found := false
		n := 0
		ast.Inspect(c.fn, func(x ast.Node) bool {
			rs, isR := x.(*ast.RangeStmt)
			if !isR || identOf(rs.Key) == nil || c.info().Defs[identOf(rs.Key)] != obj || rs.Value != nil {
				return true
			}
			if k, isK := c.constInt(rs.X); isK && k > 0 {
				assigned := false
				ast.Inspect(rs.Body, func(y ast.Node) bool {
					switch s := y.(type) {
					case *ast.AssignStmt:
						for _, l := range s.Lhs {
							if id := identOf(l); id != nil && objOf(c.info(), id) == obj {
								assigned = true
							}
						}
					case *ast.IncDecStmt:
						if id := identOf(s.X); id != nil && objOf(c.info(), id) == obj {
							assigned = true
						}
					}
					return true
				})
				if !assigned {
					found, n = true, k
				}
			}
			return true
		})
		if found {
			return 0, n - 1, true
		}
	case *ast.BinaryExpr:
		l1, h1, ok1 := c.intRange(v.X)
		l2, h2, ok2 := c.intRange(v.Y)
		if !ok1 || !ok2 {
			return 0, 0, false
		}
		switch v.Op {
		case token.ADD:
			return l1 + l2, h1 + h2, true
		case token.SUB:
			return l1 - h2, h1 - l2, true
		}
	}
	return 0, 0, false
}

// groupParamIndex (I9): `m[g]` where m is the non-empty FindStringSubmatch of a regexp the function receives as a
// parameter and g an integer parameter: safe when every call site of the function passes a package-level regexp with
// a constant pattern and a constant group number that the pattern has. The function must not be used as a value.
func (c *oblCtx) groupParamIndex(n *ast.IndexExpr) (string, bool) {
	if c.fn == nil {
		return "", false
	}
	info := c.info()
	self, _ := info.Defs[c.fn.Name].(*types.Func)
	xid, gid := identOf(n.X), identOf(n.Index)
	if self == nil || xid == nil || gid == nil || c.minLen(es(n.X)) < 1 {
		return "", false
	}
	paramIndex := func(o types.Object) int {
		k := 0
		for _, f := range c.fn.Type.Params.List {
			for _, nm := range f.Names {
				if info.Defs[nm] == o {
					return k
				}
				k++
			}
		}
		return -1
	}
	gi := paramIndex(objOf(info, gid))
	if gi < 0 || c.reassigned(gid.Name) {
		return "", false
	}
	defs := c.defsOf(objOf(info, xid))
	if len(defs) != 1 || defs[0] == nil {
		return "", false
	}
	call, ok := ast.Unparen(defs[0]).(*ast.CallExpr)
	if !ok || fullName(calleeOf(info, call)) != "(*regexp.Regexp).FindStringSubmatch" {
		return "", false
	}
	rid := identOf(call.Fun.(*ast.SelectorExpr).X)
	if rid == nil {
		return "", false
	}
	ri := paramIndex(objOf(info, rid))
	if ri < 0 || c.reassigned(rid.Name) {
		return "", false
	}
	sites, good := 0, true
	for _, p := range c.w.Pkgs {
		cc := &oblCtx{w: c.w, pkg: p}
		for _, f := range p.Syntax {
			ast.Inspect(f, func(x ast.Node) bool {
				switch v := x.(type) {
				case *ast.CallExpr:
					if calleeOf(p.TypesInfo, v) != self {
						return true
					}
					sites++
					if ri >= len(v.Args) || gi >= len(v.Args) {
						good = false
						return true
					}
					re, _, ok := cc.regexpOf(v.Args[ri])
					tv := p.TypesInfo.Types[v.Args[gi]]
					if !ok || tv.Value == nil {
						good = false
						return true
					}
					k, exact := constant.Int64Val(tv.Value)
					if !exact || k < 0 || int(k) > re.NumSubexp() {
						good = false
					}
				case *ast.Ident:
					// used as a value (not as the function of a call): unknown call sites
					if p.TypesInfo.Uses[v] == types.Object(self) {
						if !isCallFun(f, v) {
							good = false
						}
					}
				}
				return true
			})
		}
	}
	if sites == 0 || !good {
		return "", false
	}
	return fmt.Sprintf("I9: group number and regexp are parameters; each of the %d call sites passes a constant pattern that has the constant group it asks for, and the match is non-empty here", sites), true
}

// isCallFun: the identifier is the function position of a call expression somewhere in f.
func isCallFun(f *ast.File, id *ast.Ident) bool {
	found := false
	ast.Inspect(f, func(x ast.Node) bool {
		if call, ok := x.(*ast.CallExpr); ok {
			switch fn := ast.Unparen(call.Fun).(type) {
			case *ast.Ident:
				if fn == id {
					found = true
				}
			case *ast.SelectorExpr:
				if fn.Sel == id {
					found = true
				}
			}
		}
		return !found
	})
	return found
}


// stepped: the local is modified other than by plain assignment somewhere in the function (`x++`, `x += k`, its address
// taken): its definitions do not bound it.
func (c *oblCtx) stepped(obj types.Object) bool {
	if c.fn == nil {
		return true
	}
	found := false
	ast.Inspect(c.fn, func(n ast.Node) bool {
		switch v := n.(type) {
		case *ast.IncDecStmt:
			if id := identOf(v.X); id != nil && objOf(c.info(), id) == obj {
				found = true
			}
		case *ast.AssignStmt:
			if v.Tok != token.ASSIGN && v.Tok != token.DEFINE {
				for _, l := range v.Lhs {
					if id := identOf(l); id != nil && objOf(c.info(), id) == obj {
						found = true
					}
				}
			}
		case *ast.UnaryExpr:
			if v.Op == token.AND {
				if id := identOf(v.X); id != nil && objOf(c.info(), id) == obj {
					found = true
				}
			}
		}
		return true
	})
	return found
}

package main

// TPL-4: lexer-level balance of the constant templates (a necessary condition for syntactic validity
// in targets for which the sandbox has no parser: TypeScript, Dart, PL/pgSQL).

import (
	"fmt"
	"go/ast"
	"go/constant"
	"go/types"
	"strings"
)

// balanceText checks (), [], {} outside strings and comments. lang: ts, dart, sql.
func balanceText(s, lang string) string {
	var stack []rune
	rs := []rune(s)
	i := 0
	for i < len(rs) {
		c := rs[i]
		switch {
		case (lang == "ts" || lang == "dart") && c == '/' && i+1 < len(rs) && rs[i+1] == '/':
			for i < len(rs) && rs[i] != '\n' {
				i++
			}
			continue
		case (lang == "ts" || lang == "dart" || lang == "sql") && c == '/' && i+1 < len(rs) && rs[i+1] == '*':
			i += 2
			for i+1 < len(rs) && !(rs[i] == '*' && rs[i+1] == '/') {
				i++
			}
			i += 2
			continue
		case lang == "sql" && c == '-' && i+1 < len(rs) && rs[i+1] == '-':
			for i < len(rs) && rs[i] != '\n' {
				i++
			}
			continue
		case c == '\'' || c == '"' || ((lang == "ts") && c == '`'):
			q := c
			i++
			for i < len(rs) && rs[i] != q {
				if rs[i] == '\\' && lang != "sql" {
					i++
				}
				if rs[i] == '\n' && q != '`' && lang != "sql" {
					break // unterminated on this line: holes may contain quotes; be lenient
				}
				i++
			}
			i++
			continue
		case c == '(' || c == '[' || c == '{':
			stack = append(stack, c)
		case c == ')' || c == ']' || c == '}':
			if len(stack) == 0 {
				return fmt.Sprintf("unmatched %q", c)
			}
			top := stack[len(stack)-1]
			if (c == ')' && top != '(') || (c == ']' && top != '[') || (c == '}' && top != '{') {
				return fmt.Sprintf("%q closes %q", c, top)
			}
			stack = stack[:len(stack)-1]
		}
		i++
	}
	if len(stack) > 0 {
		return fmt.Sprintf("unclosed %q", stack[len(stack)-1])
	}
	if lang == "sql" {
		return balanceSQLBlocks(s)
	}
	return ""
}

// balanceSQLBlocks: BEGIN/END, IF/END IF, CASE/END CASE in PL/pgSQL bodies.
func balanceSQLBlocks(s string) string {
	up := strings.ToUpper(s)
	// strip strings and comments
	var b strings.Builder
	inS := false
	for i := 0; i < len(up); i++ {
		if up[i] == '\'' {
			inS = !inS
			continue
		}
		if !inS && up[i] == '-' && i+1 < len(up) && up[i+1] == '-' {
			for i < len(up) && up[i] != '\n' {
				i++
			}
			continue
		}
		if !inS {
			b.WriteByte(up[i])
		}
	}
	words := strings.FieldsFunc(b.String(), func(r rune) bool {
		return !(r >= 'A' && r <= 'Z' || r >= '0' && r <= '9' || r == '_' || r == '%')
	})
	var stack []string
	for i := 0; i < len(words); i++ {
		wd := words[i]
		switch wd {
		case "BEGIN":
			stack = append(stack, "BEGIN")
		case "CASE":
			if i > 0 && words[i-1] == "END" {
				continue
			}
			stack = append(stack, "CASE")
		case "IF":
			if i > 0 && words[i-1] == "END" {
				continue
			}
			// `IF NOT EXISTS` in DDL is not a block
			if i+2 < len(words) && words[i+1] == "NOT" && words[i+2] == "EXISTS" {
				continue
			}
			stack = append(stack, "IF")
		case "END":
			if len(stack) == 0 {
				return "END without an open block"
			}
			want := stack[len(stack)-1]
			next := ""
			if i+1 < len(words) {
				next = words[i+1]
			}
			switch want {
			case "IF":
				if next != "IF" {
					return "IF block closed by END " + next
				}
			case "CASE":
				if next != "CASE" {
					return "CASE block closed by END " + next
				}
			case "BEGIN":
				if next == "IF" || next == "CASE" {
					return "BEGIN block closed by END " + next
				}
			}
			stack = stack[:len(stack)-1]
		}
	}
	if len(stack) > 0 {
		return "unclosed " + stack[len(stack)-1] + " block"
	}
	return ""
}

func langOf(rel string) string {
	switch {
	case strings.HasSuffix(rel, "typescript"):
		return "ts"
	case strings.HasSuffix(rel, "dart"):
		return "dart"
	case rel == "generator/sql":
		return "sql"
	}
	return ""
}

// fillVerbs replaces printf verbs by a neutral identifier.
func fillVerbs(format string) string {
	out := verbRe.ReplaceAllStringFunc(format, func(m string) string {
		if m == "%%" {
			return "%"
		}
		return "x"
	})
	return out
}

// tplBalanceFor checks every constant template (string constant of 20+ characters containing a
// bracket) used in the given functions, plus package-level template constants they reference.
func tplBalanceFor(w *World, r *Result, fns []string) int {
	n := 0
	for _, q := range fns {
		fi := w.MustFunc(q)
		lang := langOf(w.Rel(fi.Obj.Pkg()))
		if lang == "" {
			continue
		}
		info := fi.Pkg.TypesInfo
		seen := map[string]bool{}
		check := func(s string, pos ast.Node) {
			if len(s) < 12 || !strings.ContainsAny(s, "()[]{}") || seen[s] {
				return
			}
			seen[s] = true
			n++
			txt := fillVerbs(s)
			head := strings.Join(strings.Fields(s), " ")
			if len(head) > 48 {
				head = head[:48] + "…"
			}
			if why := balanceText(txt, lang); why != "" {
				r.bad("TPL-4", fi.Name, "template "+fmt.Sprintf("%q", head), w.Pos(pos.Pos()), "the constant template is not bracket/block balanced ("+why+"): every instantiation is syntactically invalid "+strings.ToUpper(lang))
			} else {
				r.ok("TPL-4", fi.Name, "template "+fmt.Sprintf("%q", head), w.Pos(pos.Pos()), "brackets and block keywords balance outside strings and comments", false)
			}
		}
		var visit func(n ast.Node)
		visit = func(n ast.Node) {
			ast.Inspect(n, func(x ast.Node) bool {
				switch v := x.(type) {
				case *ast.BinaryExpr:
					// a text built by concatenation is one template: its literal operands are pieces of it, balanced
					// only together (`"json['" + name + "']"`)
					if c := sprintfView(info, v); c != nil {
						if tv := info.Types[c.Args[0]]; tv.Value != nil && tv.Value.Kind() == constant.String {
							check(constant.StringVal(tv.Value), v)
						}
						for _, a := range c.Args[1:] {
							visit(a)
						}
						return false
					}
				case *ast.BasicLit:
					if tv := info.Types[v]; tv.Value != nil && tv.Value.Kind() == constant.String {
						check(constant.StringVal(tv.Value), v)
					}
				case *ast.Ident:
					if c, ok := info.Uses[v].(*types.Const); ok && c.Val().Kind() == constant.String {
						check(constant.StringVal(c.Val()), v)
					}
				}
				return true
			})
		}
		visit(fi.Decl.Body)
	}
	return n
}

// allTemplateFuncs lists the functions of a package that contain a template-sized constant.
func allTemplateFuncs(w *World, rel string) []string {
	var out []string
	for _, fi := range sortedFuncs(w) {
		if w.Rel(fi.Obj.Pkg()) == rel {
			out = append(out, fi.Name)
		}
	}
	return out
}

var verbRe = regexpMust(`%(\[\d+\])?[-+# 0]*\d*(\.\d+)?[sdqvTtxXfgeEbcUp%]`)

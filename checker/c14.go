package main

// C14: generated Axios client.

import (
	"go/ast"
	"go/constant"
	"go/token"
	"go/types"
	"sort"
	"strings"
)

func init() { register("C14", "other", checkC14) }

func checkC14(w *World, r *Result) {
	r.Explanation = "Decides structural necessary conditions on generator/typescript/axios_api.go: AGR-C14a every contract slot whose type the method signatures print (body, return, form JSON, query parameters) is collected by renderTypes, so its declaration is in the file; REC-SHAPE/AGR-MD the TypeScript type printer never follows a child the declaration generator does not descend into, and each helper declares what it mentions; SHP-C14m one generateMethod per endpoint, in order, named by Contract.Name; SHP-C14c the call-shape chain tests form data, then JSON body, then verb-expects-body and ends in an unconditional else, with null as body exactly for body-less POST/PUT; AGR-C14f the form fields appended to FormData, the form arguments of the signature and Form.IsZero read the same three slots (File, ValueNames, JSON.Name); AGR-C13b record coverage; TPL-4 balanced brackets of the class and method templates. Does not decide: what request a generated method performs at run time, TypeScript validity (no parser in the sandbox)."
	r.Rules = []string{"AGR-C14a", "REC-SHAPE", "AGR-MD", "SHP-C14m", "SHP-C14c", "AGR-C14f", "AGR-C14z", "AGR-C14k", "SHP-C13u", "AGR-C13b", "TPL-4", "ALIAS-APPEND", "PRINTF", "CACHE-DROP", "AGR-C14k blob flag / numeric converter", "LIT-VALUE"}
	// the URL, query and form names the client sends are the strings the extraction produced: a literal read as
	// source text (escapes undecoded) makes the client request a different URL than the server registered
	litValueRule(w, r, func(rel string) bool { return rel == "analysis/httpapi" || rel == "generator/typescript" })
	cacheDropRule(w, r, func(rel string) bool { return rel == "generator/typescript" })
	descentDominatesReturns(w, r, "generator/typescript")
	printfRule(w, r, "generator/typescript")
	aliasAppendRule(w, r, func(rel string) bool { return rel == "analysis/httpapi" || rel == "generator/typescript" })
	checkRenderTypes(w, r)
	recursionShape(w, r, "REC-SHAPE", "generator/typescript.typeName", "generator/typescript.generate")
	mentionDeclare(w, r, "AGR-MD", "generator/typescript", []string{"generator/typescript.typeName"}, "generator/typescript.generate", axiosSkip)
	checkAxiosShape(w, r)
	checkFormAgreement(w, r)
	checkIsZeroEmptiness(w, r)
	// one method per endpoint: handler names are unique (rule shared with C13)
	checkAnonymousNames(w, r)
	checkQueryConverters(w, r)
	sub := &Result{}
	checkRecordCoverage(w, sub)
	for _, o := range sub.Obs {
		r.add(o)
	}
	tplBalanceFor(w, r, []string{"generator/typescript.GenerateAxios", "generator/typescript.generateMethod", "generator/typescript.generateAxiosCall"})
}

// functions of axios_api.go print references for signatures; their declarations are collected by renderTypes (AGR-C14a)
var axiosSkip = map[string]bool{
	"generator/typescript.typeIn": true, "generator/typescript.typeOut": true, "generator/typescript.paramsType": true,
}

func checkRenderTypes(w *World, r *Result) {
	tn := w.MustFunc("generator/typescript.typeName").Obj
	pt := w.MustFunc("generator/typescript.paramsType")
	mention := map[string]string{}
	// 1. mentions in typeIn / typeOut / generateMethod...: typeName(<slot>) and paramsType(<slot>)
	for _, fi := range sortedFuncs(w) {
		if w.Rel(fi.Obj.Pkg()) != "generator/typescript" || !strings.HasSuffix(w.Pos(fi.Decl.Pos()), "") {
			continue
		}
		file := w.Fset.Position(fi.Decl.Pos()).Filename
		if !strings.HasSuffix(file, "axios_api.go") {
			continue
		}
		info := fi.Pkg.TypesInfo
		roots := map[types.Object]string{}
		for _, f := range fi.Decl.Type.Params.List {
			for _, nm := range f.Names {
				o := info.Defs[nm]
				switch {
				case strings.HasSuffix(o.Type().String(), "httpapi.Endpoint"):
					roots[o] = "E"
				case strings.HasSuffix(o.Type().String(), "httpapi.Contract"):
					roots[o] = "E.Contract"
				}
			}
		}
		if len(roots) == 0 {
			continue
		}
		// locals
		for iter := 0; iter < 3; iter++ {
			ast.Inspect(fi.Decl.Body, func(x ast.Node) bool {
				if as, ok := x.(*ast.AssignStmt); ok && len(as.Lhs) == len(as.Rhs) {
					for i, rhs := range as.Rhs {
						if p := slotPath(info, rhs, roots); p != "" {
							if id := identOf(as.Lhs[i]); id != nil && roots[objOf(info, id)] == "" {
								roots[objOf(info, id)] = p
							}
						}
					}
				}
				if rs, ok := x.(*ast.RangeStmt); ok {
					if p := slotPath(info, rs.X, roots); p != "" {
						if id := identOf(rs.Value); id != nil && id.Name != "_" && roots[info.Defs[id]] == "" {
							roots[info.Defs[id]] = p + "[*]"
						}
					}
				}
				return true
			})
		}
		ast.Inspect(fi.Decl.Body, func(x ast.Node) bool {
			call, ok := x.(*ast.CallExpr)
			if !ok || len(call.Args) < 1 {
				return true
			}
			fn := calleeOf(info, call)
			switch fn {
			case tn:
				if p := slotPath(info, call.Args[0], roots); p != "" {
					mention[p] = w.Pos(call.Pos()) + "|" + fi.Name
				}
			case pt.Obj:
				if p := slotPath(info, call.Args[0], roots); p != "" {
					mention[p+"[*].Type"] = w.Pos(call.Pos()) + "|" + fi.Name
				}
			}
			return true
		})
	}
	// 2. collected by renderTypes
	rt := w.MustFunc("generator/typescript.renderTypes")
	info := rt.Pkg.TypesInfo
	collected := map[string]bool{}
	sp := func(info *types.Info, e ast.Expr, roots map[types.Object]string) string {
		return strings.Replace(slotPath(info, e, roots), "@E[*]", "E", 1)
	}
	ast.Inspect(rt.Decl.Body, func(x ast.Node) bool {
		rs, ok := x.(*ast.RangeStmt)
		if !ok {
			return true
		}
		t := info.TypeOf(rs.X)
		if t == nil || !strings.HasSuffix(t.String(), "httpapi.Endpoint") {
			return true
		}
		roots := map[types.Object]string{}
		if id := identOf(rs.Value); id != nil && id.Name != "_" {
			roots[info.Defs[id]] = "E"
		} else if cid := identOf(rs.X); cid != nil && rs.Key != nil {
			roots[objOf(info, cid)] = "@E" // index loop: `xs[i]` is the element
		}
		for iter := 0; iter < 3; iter++ {
			ast.Inspect(rs.Body, func(y ast.Node) bool {
				if as, ok := y.(*ast.AssignStmt); ok && len(as.Lhs) == len(as.Rhs) {
					for i, rhs := range as.Rhs {
						if p := sp(info, rhs, roots); p != "" {
							if id := identOf(as.Lhs[i]); id != nil && roots[objOf(info, id)] == "" {
								roots[objOf(info, id)] = p
							}
						}
					}
				}
				if r2, ok := y.(*ast.RangeStmt); ok && r2 != rs {
					if p := sp(info, r2.X, roots); p != "" {
						if id := identOf(r2.Value); id != nil && id.Name != "_" && roots[info.Defs[id]] == "" {
							roots[info.Defs[id]] = p + "[*]"
						}
					}
				}
				return true
			})
		}
		for _, app := range appendStmts(info, rs.Body, "") {
			for _, a := range app.Rhs[0].(*ast.CallExpr).Args[1:] {
				if p := sp(info, a, roots); p != "" {
					collected[p] = true
				}
			}
		}
		// through a helper that appends its parameter (a local closure `addType := func(ty) { if ty != nil {
		// all = append(all, ty) } }`, or a function of the package)
		ast.Inspect(rs.Body, func(y ast.Node) bool {
			call, ok := y.(*ast.CallExpr)
			if !ok {
				return true
			}
			body, binfo, params := callbackOf(w, rt, call.Fun)
			if body == nil || params == nil {
				return true
			}
			var pobjs []types.Object
			for _, f := range params.List {
				for _, nm := range f.Names {
					pobjs = append(pobjs, binfo.Defs[nm])
				}
			}
			for _, app := range appendStmts(binfo, body, "") {
				for _, a := range app.Rhs[0].(*ast.CallExpr).Args[1:] {
					id := identOf(a)
					if id == nil {
						continue
					}
					for k, po := range pobjs {
						if objOf(binfo, id) == po && k < len(call.Args) {
							if p := sp(info, call.Args[k], roots); p != "" {
								collected[p] = true
							}
						}
					}
				}
			}
			return true
		})
		return true
	})
	var keys []string
	for k := range mention {
		keys = append(keys, k)
	}
	sort.Strings(keys)
	if len(keys) < 3 {
		Undecided("axios_api.go: only %d type mentions recognised", len(keys))
	}
	for _, k := range keys {
		pf := strings.SplitN(mention[k], "|", 2)
		r.cond(collected[k], "AGR-C14a", pf[1], "mention of "+k, pf[0],
			"renderTypes collects this slot, so the declaration of the printed type is generated into the file",
			"the method signature prints the type at "+k+", but renderTypes does not collect it: the client file mentions a type (or the Int brand) it never declares")
	}
	var cks []string
	for k := range collected {
		cks = append(cks, k)
	}
	sort.Strings(cks)
	r.note("mentioned_slots", keys)
	r.note("collected_slots", cks)
}

func checkAxiosShape(w *World, r *Result) {
	// one method per endpoint, in order
	ga := w.MustFunc("generator/typescript.GenerateAxios")
	info := ga.Pkg.TypesInfo
	gm := w.MustFunc("generator/typescript.generateMethod")
	good := false
	ast.Inspect(ga.Decl.Body, func(x ast.Node) bool {
		rs, ok := x.(*ast.RangeStmt)
		if !ok || len(rs.Body.List) != 1 {
			return true
		}
		as, ok := rs.Body.List[0].(*ast.AssignStmt)
		if !ok || len(as.Lhs) != 1 || len(as.Rhs) != 1 {
			return true
		}
		ix, ok := as.Lhs[0].(*ast.IndexExpr)
		call, ok2 := as.Rhs[0].(*ast.CallExpr)
		if ok && ok2 && calleeOf(info, call) == gm.Obj && identOf(ix.Index) != nil && identOf(rs.Key) != nil && identOf(ix.Index).Name == identOf(rs.Key).Name &&
			identOf(call.Args[0]) != nil && identOf(rs.Value) != nil && identOf(call.Args[0]).Name == identOf(rs.Value).Name {
			good = true
		}
		if ok2 && calleeOf(info, call) == gm.Obj {
			if _, isApp := as.Rhs[0].(*ast.CallExpr); isApp && !ok {
				good = false
			}
		}
		return true
	})
	if !good {
		// append form
		for _, app := range appendStmts(info, ga.Decl.Body, "") {
			if call, ok := app.Rhs[0].(*ast.CallExpr).Args[1].(*ast.CallExpr); ok && calleeOf(info, call) == gm.Obj {
				good = len(pathCondsNoLoop(ga, app)) == 0
			}
		}
	}
	if !good {
		// through a helper that maps a function over a slice: `apiCalls := mapToStrings(api, generateMethod)`
		ast.Inspect(ga.Decl.Body, func(x ast.Node) bool {
			call, ok := x.(*ast.CallExpr)
			if !ok {
				return true
			}
			h := w.Funcs[calleeOf(info, call)]
			if h == nil {
				if fn := calleeOf(info, call); fn != nil && fn.Origin() != nil {
					h = w.Funcs[fn.Origin()]
				}
			}
			itemsIdx, fnIdx, isMap := mapHelper(w, h)
			if !isMap || itemsIdx >= len(call.Args) || fnIdx >= len(call.Args) {
				return true
			}
			var passed types.Object
			switch a := ast.Unparen(call.Args[fnIdx]).(type) {
			case *ast.Ident:
				passed = info.Uses[a]
			case *ast.SelectorExpr:
				passed = info.Uses[a.Sel]
			}
			if passed == types.Object(gm.Obj) && identOf(call.Args[itemsIdx]) != nil && paramIndex(ga, objOf(info, identOf(call.Args[itemsIdx]))) >= 0 && len(pathCondsNoLoop(ga, call)) == 0 {
				good = true
			}
			return true
		})
	}
	r.cond(good, "SHP-C14m", ga.Name, "one generateMethod per endpoint, in order", fnPos(w, ga), "apiCalls[i] = generateMethod(endpoint) for every (i, endpoint), unconditionally", "methods are not generated one per endpoint in list order")
	// method name = Contract.Name
	ginfo := gm.Pkg.TypesInfo
	nameOK := false
	ast.Inspect(gm.Decl.Body, func(x ast.Node) bool {
		if as, ok := x.(*ast.AssignStmt); ok && len(as.Rhs) == 1 && strings.HasSuffix(es(as.Rhs[0]), ".Contract.Name") {
			id := identOf(as.Lhs[0])
			// used as first verb argument of the template Sprintf
			ast.Inspect(gm.Decl.Body, func(y ast.Node) bool {
				if call := sprintfView(ginfo, y); call != nil && len(call.Args) >= 2 {
					if a := identOf(call.Args[1]); a != nil && id != nil && a.Name == id.Name {
						nameOK = true
					}
				}
				return true
			})
		}
		return true
	})
	r.cond(nameOK, "SHP-C14m", gm.Name, "method named after the handler", fnPos(w, gm), "the first template argument is Contract.Name", "the generated method is not named by Contract.Name")
	// call shape: decided by evaluation. The three predicates (form data? JSON body? does the verb expect a body?) are
	// given every combination of truth values and the control flow of generateAxiosCall is followed to the return it
	// reaches; the body argument of the Axios call built there must be formData / params / null / none, in that
	// priority. Whatever the chain is written as (else-if, sequential returns, switch) the table is the same.
	gc := w.MustFunc("generator/typescript.generateAxiosCall")
	cinfo := gc.Pkg.TypesInfo
	preds := []string{"withFormData", "hasBodyInput", "expectBodyParam"}
	evaluated := true
	var evalCond func(e ast.Expr, val map[string]bool) (bool, bool)
	evalCond = func(e ast.Expr, val map[string]bool) (bool, bool) {
		switch v := ast.Unparen(e).(type) {
		case *ast.CallExpr:
			if fn := calleeOf(cinfo, v); fn != nil {
				if b, ok := val[fn.Name()]; ok {
					return b, true
				}
			}
		case *ast.UnaryExpr:
			if v.Op == token.NOT {
				b, ok := evalCond(v.X, val)
				return !b, ok
			}
		case *ast.BinaryExpr:
			if v.Op == token.LAND || v.Op == token.LOR {
				x, ok1 := evalCond(v.X, val)
				y, ok2 := evalCond(v.Y, val)
				if ok1 && ok2 {
					if v.Op == token.LAND {
						return x && y, true
					}
					return x || y, true
				}
			}
		}
		return false, false
	}
	// constant strings assigned to locals on the path taken (the branches may only choose fragments that one final
	// Sprintf assembles)
	env := map[types.Object]string{}
	var run func(list []ast.Stmt, val map[string]bool) *ast.ReturnStmt
	run = func(list []ast.Stmt, val map[string]bool) *ast.ReturnStmt {
		for _, st := range list {
			switch s := st.(type) {
			case *ast.AssignStmt:
				if len(s.Lhs) == len(s.Rhs) {
					for i, l := range s.Lhs {
						if id := identOf(l); id != nil {
							if tv := cinfo.Types[s.Rhs[i]]; tv.Value != nil && tv.Value.Kind() == constant.String {
								env[objOf(cinfo, id)] = constant.StringVal(tv.Value)
							} else {
								delete(env, objOf(cinfo, id))
							}
						}
					}
				}
			case *ast.ReturnStmt:
				return s
			case *ast.BlockStmt:
				if r := run(s.List, val); r != nil {
					return r
				}
			case *ast.IfStmt:
				c, ok := evalCond(s.Cond, val)
				if s.Init != nil {
					ok = false
				}
				if !ok {
					// a test on something else (does the endpoint return a value?): it must not decide which
					// return is reached
					hasRet := false
					ast.Inspect(s, func(y ast.Node) bool {
						if _, isRet := y.(*ast.ReturnStmt); isRet {
							hasRet = true
						}
						return true
					})
					if hasRet {
						evaluated = false
						return nil
					}
					continue
				}
				var next []ast.Stmt
				if c {
					next = s.Body.List
				} else if s.Else != nil {
					switch e := s.Else.(type) {
					case *ast.BlockStmt:
						next = e.List
					case *ast.IfStmt:
						next = []ast.Stmt{e}
					}
				}
				if r := run(next, val); r != nil {
					return r
				}
			case *ast.SwitchStmt:
				if s.Tag != nil || s.Init != nil {
					evaluated = false
					return nil
				}
				var deflt *ast.CaseClause
				taken := false
				for _, cl := range s.Body.List {
					cc := cl.(*ast.CaseClause)
					if cc.List == nil {
						deflt = cc
						continue
					}
					hit := false
					for _, ce := range cc.List {
						c, ok := evalCond(ce, val)
						if !ok {
							evaluated = false
							return nil
						}
						hit = hit || c
					}
					if hit {
						taken = true
						if r := run(cc.Body, val); r != nil {
							return r
						}
						break
					}
				}
				if !taken && deflt != nil {
					if r := run(deflt.Body, val); r != nil {
						return r
					}
				}
			}
		}
		return nil
	}
	table := map[string]string{} // valuation -> body argument
	for m := 0; m < 8 && evaluated; m++ {
		val := map[string]bool{}
		key := ""
		for i, p := range preds {
			val[p] = m&(1<<i) != 0
			if val[p] {
				key += "1"
			} else {
				key += "0"
			}
		}
		env = map[types.Object]string{}
		ret := run(gc.Decl.Body.List, val)
		if ret == nil {
			evaluated = false
			break
		}
		table[key] = axiosBodyArgEnv(cinfo, ret, env)
	}
	if evaluated {
		wantArg := func(key string) string {
			switch {
			case key[0] == '1':
				return "formData"
			case key[1] == '1':
				return "params"
			case key[2] == '1':
				return "null"
			}
			return ""
		}
		bad := ""
		for key, got := range table {
			if got != wantArg(key) {
				bad += "form=" + key[0:1] + " body=" + key[1:2] + " verbExpectsBody=" + key[2:3] + " passes `" + got + "` instead of `" + wantArg(key) + "`; "
			}
		}
		r.cond(bad == "", "SHP-C14c", gc.Name, "call-shape chain", fnPos(w, gc), "evaluated over the eight combinations of (form data, JSON body, verb expects a body): formData first, then params, then null for a body-less POST/PUT, else no body argument", "the body argument of the Axios call is wrong for some endpoint kinds: "+bad)
	} else {
		var chain []string
		endsElse := false
		for _, st := range gc.Decl.Body.List {
			is, ok := st.(*ast.IfStmt)
			if !ok || is.Else == nil {
				continue
			}
			for cur := is; cur != nil; {
				chain = append(chain, condCalls(cinfo, cur.Cond))
				switch e := cur.Else.(type) {
				case *ast.IfStmt:
					cur = e
				case *ast.BlockStmt:
					endsElse = true
					cur = nil
				default:
					cur = nil
				}
			}
		}
		want := []string{"withFormData", "hasBodyInput", "!hasBodyInput&expectBodyParam"}
		wantAlt := []string{"withFormData", "hasBodyInput", "expectBodyParam"}
		okChain := strings.Join(chain, " > ") == strings.Join(want, " > ") || strings.Join(chain, " > ") == strings.Join(wantAlt, " > ")
		r.cond(okChain && endsElse, "SHP-C14c", gc.Name, "call-shape chain", fnPos(w, gc), "form data > JSON body > verb expects a body > else, in that order, ending in an unconditional else", "the call-shape chain is {"+strings.Join(chain, " > ")+"} (ends in else: "+boolStr(endsElse)+"): some endpoint kind gets no call or the wrong body argument")
		// null body exactly in the expectBodyParam branch; body argument `params` in hasBodyInput, `formData` in form branch
		branchArg := map[string]string{}
		for _, st := range gc.Decl.Body.List {
			is, ok := st.(*ast.IfStmt)
			if !ok || is.Else == nil {
				continue
			}
			for cur := is; cur != nil; {
				lbl := condCalls(cinfo, cur.Cond)
				branchArg[lbl] = axiosBodyArg(cinfo, cur.Body)
				switch e := cur.Else.(type) {
				case *ast.IfStmt:
					cur = e
				case *ast.BlockStmt:
					branchArg["else"] = axiosBodyArg(cinfo, e)
					cur = nil
				default:
					cur = nil
				}
			}
		}
		expect := map[string]string{"withFormData": "formData", "hasBodyInput": "params", "else": ""}
		for k, v := range expect {
			r.cond(branchArg[k] == v, "SHP-C14c", gc.Name, "body argument in branch "+k, fnPos(w, gc), "second argument of the Axios call is `"+v+"`", "branch "+k+" passes `"+branchArg[k]+"` as request body instead of `"+v+"`")
		}
		nullBranch := branchArg["!hasBodyInput&expectBodyParam"]
		if nullBranch == "" {
			nullBranch = branchArg["expectBodyParam"]
		}
		r.cond(nullBranch == "null", "SHP-C14c", gc.Name, "null body for body-less POST/PUT", fnPos(w, gc), "Axios.post/put(fullUrl, null, ...)", "a body-less POST/PUT does not pass null as body: the config object is sent as the body")

	}
	// expectBodyParam = POST or PUT
	eb := w.MustFunc("generator/typescript.expectBodyParam")
	verbs := map[string]bool{}
	ast.Inspect(eb.Decl.Body, func(x ast.Node) bool {
		if be, ok := x.(*ast.BinaryExpr); ok {
			for _, side := range []ast.Expr{be.X, be.Y} {
				if tv := eb.Pkg.TypesInfo.Types[side]; tv.Value != nil && tv.Value.Kind() == constant.String {
					verbs[constant.StringVal(tv.Value)] = true
				}
			}
		}
		return true
	})
	r.cond(len(verbs) == 2 && verbs["POST"] && verbs["PUT"], "SHP-C14c", eb.Name, "verbs with a body argument = {POST, PUT}", fnPos(w, eb), "axios.post/put take (url, data, config); get/delete take (url, config)", "the set of verbs whose Axios call takes a body argument is not {POST, PUT}")
}

func boolStr(b bool) string {
	if b {
		return "yes"
	}
	return "no"
}

func pathCondsNoLoop(fi *FuncInfo, n ast.Node) []pcond {
	var out []pcond
	for _, c := range pathConds(fi.Decl, n) {
		if !c.loop {
			out = append(out, c)
		}
	}
	return out
}

// condCalls renders a condition as the module predicate functions it calls ("!f&g").
func condCalls(info *types.Info, cond ast.Expr) string {
	var parts []string
	for _, c := range splitCond(cond, true) {
		call, ok := c.expr.(*ast.CallExpr)
		name := es(c.expr)
		if ok {
			if fn := calleeOf(info, call); fn != nil {
				name = fn.Name()
			}
		}
		if !c.truth {
			name = "!" + name
		}
		parts = append(parts, name)
	}
	return strings.Join(parts, "&")
}

// axiosBodyArg extracts, from the format string of the returned Sprintf, the second argument of the Axios call.
// axiosBodyArgEnv: axiosBodyArg for one return statement, with the `%s` holes filled by locals that hold a known constant
// on the path taken replaced by that constant.
func axiosBodyArgEnv(info *types.Info, ret *ast.ReturnStmt, env map[types.Object]string) string {
	if len(ret.Results) == 1 && len(env) > 0 {
		if call := sprintfView(info, ret.Results[0]); call != nil {
			if f, vas := verbArgs(info, call); f != "" {
				out, last, changed := "", 0, false
				for _, va := range vas {
					out += f[last:va.start]
					last = va.end
					if id := identOf(va.arg); id != nil && va.verb == "%s" {
						if v, ok := env[objOf(info, id)]; ok {
							out += v
							changed = true
							continue
						}
					}
					out += f[va.start:va.end]
				}
				out += f[last:]
				if changed {
					if i := strings.Index(out, "Axios.%s("); i >= 0 {
						args := strings.Split(strings.TrimSuffix(strings.TrimSpace(out[i+len("Axios.%s("):]), ")"), ",")
						switch len(args) {
						case 3:
							return strings.TrimSpace(args[1])
						case 2:
							return ""
						}
					}
				}
			}
		}
	}
	return axiosBodyArg(info, &ast.BlockStmt{List: []ast.Stmt{ret}})
}

func axiosBodyArg(info *types.Info, body *ast.BlockStmt) string {
	res := "?"
	ast.Inspect(body, func(x ast.Node) bool {
		ret, ok := x.(*ast.ReturnStmt)
		if !ok || len(ret.Results) != 1 {
			return true
		}
		call := sprintfView(info, ret.Results[0])
		if call == nil {
			// the branch returns what a helper of the package builds: read the helper's own return
			if c0, ok := ast.Unparen(ret.Results[0]).(*ast.CallExpr); ok && theWorld != nil {
				if h := theWorld.Funcs[calleeOf(info, c0)]; h != nil && h.Decl.Body != nil && h.Decl.Body != body {
					if v := axiosBodyArg(h.Pkg.TypesInfo, h.Decl.Body); v != "?" {
						res = v
					}
				}
			}
			return true
		}
		tv := info.Types[call.Args[0]]
		if tv.Value == nil {
			return true
		}
		f := constant.StringVal(tv.Value)
		i := strings.Index(f, "Axios.%s(")
		if i < 0 {
			return true
		}
		args := strings.Split(strings.TrimSuffix(strings.TrimSpace(f[i+len("Axios.%s("):]), ")"), ",")
		if len(args) == 3 {
			res = strings.TrimSpace(args[1])
		} else if len(args) == 2 {
			res = ""
		}
		return true
	})
	return res
}

func checkFormAgreement(w *World, r *Result) {
	formFields := func(fi *FuncInfo, within ast.Node) []string {
		set := map[string]bool{}
		info := fi.Pkg.TypesInfo
		ast.Inspect(within, func(x ast.Node) bool {
			sel, ok := x.(*ast.SelectorExpr)
			if !ok {
				return true
			}
			v, ok := info.Uses[sel.Sel].(*types.Var)
			if !ok || !v.IsField() {
				return true
			}
			// field of Form, or Name of the JSON TypedParam inside a Form
			rt := info.TypeOf(sel.X)
			if rt != nil && strings.HasSuffix(rt.String(), "httpapi.Form") {
				if v.Name() == "JSON" {
					set["JSON"] = true
				} else {
					set[v.Name()] = true
				}
			}
			return true
		})
		// method calls on Form that read fields (AsTypedValues -> ValueNames)
		ast.Inspect(within, func(x ast.Node) bool {
			if call, ok := x.(*ast.CallExpr); ok {
				if fn := calleeOf(info, call); fn != nil && fn.Name() == "AsTypedValues" {
					set["ValueNames"] = true
				}
			}
			return true
		})
		var out []string
		for k := range set {
			out = append(out, k)
		}
		sort.Strings(out)
		return out
	}
	iz := w.MustFunc("analysis/httpapi.(Form).IsZero")
	ti := w.MustFunc("generator/typescript.typeIn")
	gc := w.MustFunc("generator/typescript.generateAxiosCall")
	// a function reads a form part itself or through the helpers of its package it calls
	closureFields := func(fi *FuncInfo) []string {
		set := map[string]bool{}
		for _, cf := range calleeClosure(w, fi, 2) {
			for _, k := range formFields(cf, cf.Decl.Body) {
				set[k] = true
			}
		}
		var out []string
		for k := range set {
			out = append(out, k)
		}
		sort.Strings(out)
		return out
	}
	a, b, c := closureFields(iz), closureFields(ti), closureFields(gc)
	want := []string{"File", "JSON", "ValueNames"}
	r.cond(setEq(a, want), "AGR-C14f", iz.Name, "IsZero reads {"+strings.Join(a, ",")+"}", fnPos(w, iz), "a form is empty exactly when it has no file, no value and no JSON field", "Form.IsZero does not consult all of File, ValueNames and JSON: a form that only has the missing part is treated as 'no form' and its fields are never sent")
	r.cond(setEq(b, want), "AGR-C14f", ti.Name, "signature arguments from {"+strings.Join(b, ",")+"}", fnPos(w, ti), "file, formParams and formValue arguments", "the method signature does not cover all three form parts")
	r.cond(setEq(c, want), "AGR-C14f", gc.Name, "formData.append from {"+strings.Join(c, ",")+"}", fnPos(w, gc), "file, values and JSON field are appended", "FormData is not filled from all three form parts")
}

// checkIsZeroEmptiness (AGR-C14z): Form.IsZero is a conjunction of emptiness tests. A test on a slice- or
// map-typed field is evaluated over the three states {nil, empty non-nil, non-empty}: it must hold for the
// first two and fail for the third (len(x) == 0 does; x == nil does not: an endpoint built with an empty
// non-nil list is then sent with a FormData and without its body/params).
func checkIsZeroEmptiness(w *World, r *Result) {
	iz := w.MustFunc("analysis/httpapi.(Form).IsZero")
	info := iz.Pkg.TypesInfo
	var ret *ast.ReturnStmt
	n := 0
	ast.Inspect(iz.Decl.Body, func(x ast.Node) bool {
		if rs, ok := x.(*ast.ReturnStmt); ok {
			ret = rs
			n++
		}
		return true
	})
	if n != 1 || len(ret.Results) != 1 {
		Undecided("AGR-C14z: Form.IsZero is no longer a single returned expression")
	}
	checked := 0
	for _, c := range splitCond(ret.Results[0], true) {
		// find a slice/map typed operand
		var coll ast.Expr
		ast.Inspect(c.expr, func(x ast.Node) bool {
			if e, ok := x.(ast.Expr); ok && coll == nil {
				if t := info.TypeOf(e); t != nil {
					switch t.Underlying().(type) {
					case *types.Slice, *types.Map:
						if _, isSel := e.(*ast.SelectorExpr); isSel {
							coll = e
						}
					}
				}
			}
			return true
		})
		if coll == nil {
			continue
		}
		checked++
		// evaluate c over the three states
		eval := func(isNil bool, length int) (bool, bool) {
			be, ok := ast.Unparen(c.expr).(*ast.BinaryExpr)
			if !ok {
				return false, false
			}
			var v bool
			if call, ok := ast.Unparen(be.X).(*ast.CallExpr); ok && isBuiltinCall(info, call, "len") && len(call.Args) == 1 && es(call.Args[0]) == es(coll) {
				k, ok := constInt(info, be.Y)
				if !ok {
					return false, false
				}
				switch be.Op {
				case token.EQL:
					v = length == k
				case token.NEQ:
					v = length != k
				case token.LSS:
					v = length < k
				case token.LEQ:
					v = length <= k
				case token.GTR:
					v = length > k
				case token.GEQ:
					v = length >= k
				default:
					return false, false
				}
			} else if es(be.X) == es(coll) && es(be.Y) == "nil" {
				switch be.Op {
				case token.EQL:
					v = isNil
				case token.NEQ:
					v = !isNil
				default:
					return false, false
				}
			} else {
				return false, false
			}
			if !c.truth {
				v = !v
			}
			return v, true
		}
		a, ok1 := eval(true, 0)
		b, ok2 := eval(false, 0)
		d, ok3 := eval(false, 1)
		e2, ok4 := eval(false, 2)
		if !(ok1 && ok2 && ok3 && ok4) {
			Undecided("AGR-C14z: unrecognised emptiness test %s in Form.IsZero", es(c.expr))
		}
		r.cond(a && b && !d && !e2, "AGR-C14z", iz.Name, "emptiness of "+es(coll)+": "+es(c.expr), w.Pos(c.expr.Pos()),
			"true for nil and for an empty non-nil value, false otherwise",
			"not an emptiness test (nil: "+boolStr(a)+", empty non-nil: "+boolStr(b)+", one element: "+boolStr(d)+"): an endpoint whose list is empty but not nil is treated as having a form: POST/PUT send an empty FormData instead of null and GET/DELETE pass it in place of the request config")
	}
	if checked == 0 {
		Undecided("AGR-C14z: Form.IsZero tests no collection-typed field")
	}
}

// checkQueryConverters (AGR-C14k): asObjectKey chooses the string conversion of a query parameter from the
// basic kind alone -- a named type converts like its underlying type. Obligations: the cases that unwrap the
// parameter's type produce no output themselves (every formatted return is inside the switch over the kind), and
// the kind switch gives bool its own converter.
func checkQueryConverters(w *World, r *Result) {
	fi := w.MustFunc("generator/typescript.asObjectKey")
	info := fi.Pkg.TypesInfo
	var kindSwitch *ast.SwitchStmt
	ast.Inspect(fi.Decl.Body, func(x ast.Node) bool {
		if s, ok := x.(*ast.SwitchStmt); ok && s.Tag != nil {
			if call, ok := ast.Unparen(s.Tag).(*ast.CallExpr); ok {
				if fn := calleeOf(info, call); fn != nil && fn.Name() == "Kind" {
					kindSwitch = s
				}
			}
		}
		return true
	})
	if kindSwitch == nil {
		Undecided("AGR-C14k: asObjectKey has no switch over the basic kind")
	}
	nret := 0
	chosen := map[types.Object]bool{} // locals the switch assigns and a later return uses
	ast.Inspect(fi.Decl.Body, func(x ast.Node) bool {
		ret, ok := x.(*ast.ReturnStmt)
		if !ok {
			return true
		}
		nret++
		inside := kindSwitch.Pos() <= ret.Pos() && ret.End() <= kindSwitch.End()
		if !inside && ret.Pos() > kindSwitch.End() && len(ret.Results) == 1 {
			// the switch may only choose the format (or the text) in a local that the return after it uses
			ast.Inspect(ret.Results[0], func(y ast.Node) bool {
				id, ok := y.(*ast.Ident)
				if !ok {
					return true
				}
				obj := objOf(info, id)
				ast.Inspect(kindSwitch, func(z ast.Node) bool {
					if as, ok := z.(*ast.AssignStmt); ok {
						for _, l := range as.Lhs {
							if li := identOf(l); li != nil && objOf(info, li) == obj {
								inside = true
								chosen[obj] = true
							}
						}
					}
					return true
				})
				return true
			})
		}
		r.cond(inside, "AGR-C14k", fi.Name, "return "+es(ret.Results[0]), w.Pos(ret.Pos()),
			"the conversion is chosen inside the switch over the underlying basic kind",
			"a conversion is returned before the switch over the basic kind: the parameter is converted by the shape of its type (e.g. every named type through String()) instead of by its kind, so a named bool is sent as \"false\" -- a non-empty string the server reads as true")
		return true
	})
	// distinct formats per kind group
	formats := map[string]string{}
	for _, c := range kindSwitch.Body.List {
		cl := c.(*ast.CaseClause)
		for _, e := range cl.List {
			ast.Inspect(&ast.BlockStmt{List: cl.Body}, func(x ast.Node) bool {
				if call := sprintfView(info, x); call != nil {
					f, _ := verbArgs(info, call)
					formats[es(e)] = f
				}
				// the clause assigns a constant to the local the final return formats with
				if as, ok := x.(*ast.AssignStmt); ok && len(as.Lhs) == 1 && len(as.Rhs) == 1 {
					if li := identOf(as.Lhs[0]); li != nil && chosen[objOf(info, li)] {
						if tv := info.Types[as.Rhs[0]]; tv.Value != nil && tv.Value.Kind() == constant.String {
							formats[es(e)] = constant.StringVal(tv.Value)
						}
					}
				}
				return true
			})
		}
	}
	var boolF, intF, strF string
	for k, f := range formats {
		switch {
		case strings.HasSuffix(k, "BKBool"):
			boolF = f
		case strings.HasSuffix(k, "BKInt"):
			intF = f
		case strings.HasSuffix(k, "BKString"):
			strF = f
		}
	}
	if boolF == "" || intF == "" || strF == "" {
		Undecided("AGR-C14k: the kind switch of asObjectKey does not format bool, int and string parameters")
	}
	r.cond(boolF != intF && boolF != strF, "AGR-C14k", fi.Name, "bool parameters have their own converter", w.Pos(kindSwitch.Pos()),
		"the bool case formats differently from the numeric and the string case (false must become the empty string)",
		"bool parameters are converted like another kind: `false` reaches the server as a non-empty string")
	// numbers are sent as their decimal text, zero included: the numeric converter may not go through a JavaScript
	// truthiness test (`x || d`, `x ? a : b`), for which 0 (and NaN) count as absent
	var floatF string
	for k, f := range formats {
		if strings.HasSuffix(k, "BKFloat") {
			floatF = f
		}
	}
	for _, f := range []string{intF, floatF} {
		if f == "" {
			continue
		}
		truthy := strings.Contains(f, "||") || strings.Contains(f, " ? ")
		r.cond(!truthy, "AGR-C14k", fi.Name, "numeric parameters are converted whatever their value", w.Pos(kindSwitch.Pos()),
			"the numeric converter applies no truthiness test to the value",
			"the converter of numeric parameters `"+f+"` tests the value for truthiness: 0 is falsy in JavaScript, so a parameter equal to zero is sent as the fallback (an empty string) instead of \"0\"")
	}
	if nret == 0 {
		Undecided("AGR-C14k: asObjectKey returns nothing")
	}
	// the return statement of a generated method follows the flags of the contract, not the printed type: the text
	// "Blob" / "never" can also be the name of a user type
	gm := w.MustFunc("generator/typescript.generateMethod")
	nb := 0
	for _, cf := range calleeClosure(w, gm, 1) {
		if cf.Pkg != gm.Pkg || cf.Decl.Body == nil {
			continue
		}
		ast.Inspect(cf.Decl.Body, func(x ast.Node) bool {
			lit, ok := x.(*ast.BasicLit)
			if !ok || lit.Kind != token.STRING || !strings.Contains(lit.Value, "content-disposition") {
				return true
			}
			nb++
			byFlag := false
			var seen []string
			for _, c := range pathConds(cf.Decl, lit) {
				if c.expr != nil {
					seen = append(seen, es(c.expr))
					if strings.HasSuffix(es(c.expr), ".IsReturnBlob") && c.truth {
						byFlag = true
					}
				} else if c.text != "" {
					seen = append(seen, c.text)
				}
			}
			r.cond(byFlag, "AGR-C14k", cf.Name, "blob epilogue chosen by the contract's blob flag", w.Pos(lit.Pos()),
				"the code reading the content-disposition header is emitted exactly under Contract.IsReturnBlob, the flag generateAxiosCall uses for responseType",
				"the blob epilogue is emitted under {"+strings.Join(seen, ", ")+"} instead of Contract.IsReturnBlob: a JSON endpoint whose Go return type prints as that text (a user type named Blob) gets code that reads a header it never receives, while the request is still sent without responseType")
			return true
		})
	}
	if nb == 0 {
		Undecided("AGR-C14k: the blob epilogue (content-disposition) was not found in generateMethod")
	}
}

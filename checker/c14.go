package main

// C14: generated Axios client.

import (
	"go/ast"
	"go/constant"
	"go/types"
	"sort"
	"strings"
)

func init() { register("C14", "other", checkC14) }

func checkC14(w *World, r *Result) {
	r.Explanation = "Decides structural necessary conditions on generator/typescript/axios_api.go: AGR-C14a every contract slot whose type the method signatures print (body, return, form JSON, query parameters) is collected by renderTypes, so its declaration is in the file; REC-SHAPE/AGR-MD the TypeScript type printer never follows a child the declaration generator does not descend into, and each helper declares what it mentions; SHP-C14m one generateMethod per endpoint, in order, named by Contract.Name; SHP-C14c the call-shape chain tests form data, then JSON body, then verb-expects-body and ends in an unconditional else, with null as body exactly for body-less POST/PUT; AGR-C14f the form fields appended to FormData, the form arguments of the signature and Form.IsZero read the same three slots (File, ValueNames, JSON.Name); AGR-C13b record coverage; TPL-4 balanced brackets of the class and method templates. Does not decide: what request a generated method performs at run time, TypeScript validity (no parser in the sandbox)."
	r.Rules = []string{"AGR-C14a", "REC-SHAPE", "AGR-MD", "SHP-C14m", "SHP-C14c", "AGR-C14f", "AGR-C13b", "TPL-4"}
	checkRenderTypes(w, r)
	recursionShape(w, r, "REC-SHAPE", "generator/typescript.typeName", "generator/typescript.generate")
	mentionDeclare(w, r, "AGR-MD", "generator/typescript", []string{"generator/typescript.typeName"}, "generator/typescript.generate", axiosSkip)
	checkAxiosShape(w, r)
	checkFormAgreement(w, r)
	sub := &Result{}
	checkRecordCoverage(w, sub)
	for _, o := range sub.Obs {
		r.add(o)
	}
	tplBalanceFor(w, r, []string{"generator/typescript.GenerateAxios", "generator/typescript.generateMethod", "generator/typescript.generateAxiosCall"})
}

// functions of axios_api.go print references for signatures; their declarations are collected by renderTypes (AGR-C14a)
var axiosSkip = map[string]bool{
	"generator/typescript.typeIn": true, "generator/typescript.typeOut": true, "generator/typescript.paramsType": true,
}

func checkRenderTypes(w *World, r *Result) {
	tn := w.MustFunc("generator/typescript.typeName").Obj
	pt := w.MustFunc("generator/typescript.paramsType")
	mention := map[string]string{}
	// 1. mentions in typeIn / typeOut / generateMethod...: typeName(<slot>) and paramsType(<slot>)
	for _, fi := range sortedFuncs(w) {
		if w.Rel(fi.Obj.Pkg()) != "generator/typescript" || !strings.HasSuffix(w.Pos(fi.Decl.Pos()), "") {
			continue
		}
		file := w.Fset.Position(fi.Decl.Pos()).Filename
		if !strings.HasSuffix(file, "axios_api.go") {
			continue
		}
		info := fi.Pkg.TypesInfo
		roots := map[types.Object]string{}
		for _, f := range fi.Decl.Type.Params.List {
			for _, nm := range f.Names {
				o := info.Defs[nm]
				switch {
				case strings.HasSuffix(o.Type().String(), "httpapi.Endpoint"):
					roots[o] = "E"
				case strings.HasSuffix(o.Type().String(), "httpapi.Contract"):
					roots[o] = "E.Contract"
				}
			}
		}
		if len(roots) == 0 {
			continue
		}
		// locals
		for iter := 0; iter < 3; iter++ {
			ast.Inspect(fi.Decl.Body, func(x ast.Node) bool {
				if as, ok := x.(*ast.AssignStmt); ok && len(as.Lhs) == len(as.Rhs) {
					for i, rhs := range as.Rhs {
						if p := slotPath(info, rhs, roots); p != "" {
							if id := identOf(as.Lhs[i]); id != nil && roots[objOf(info, id)] == "" {
								roots[objOf(info, id)] = p
							}
						}
					}
				}
				if rs, ok := x.(*ast.RangeStmt); ok {
					if p := slotPath(info, rs.X, roots); p != "" {
						if id := identOf(rs.Value); id != nil && id.Name != "_" && roots[info.Defs[id]] == "" {
							roots[info.Defs[id]] = p + "[*]"
						}
					}
				}
				return true
			})
		}
		ast.Inspect(fi.Decl.Body, func(x ast.Node) bool {
			call, ok := x.(*ast.CallExpr)
			if !ok || len(call.Args) < 1 {
				return true
			}
			fn := calleeOf(info, call)
			switch fn {
			case tn:
				if p := slotPath(info, call.Args[0], roots); p != "" {
					mention[p] = w.Pos(call.Pos()) + "|" + fi.Name
				}
			case pt.Obj:
				if p := slotPath(info, call.Args[0], roots); p != "" {
					mention[p+"[*].Type"] = w.Pos(call.Pos()) + "|" + fi.Name
				}
			}
			return true
		})
	}
	// 2. collected by renderTypes
	rt := w.MustFunc("generator/typescript.renderTypes")
	info := rt.Pkg.TypesInfo
	collected := map[string]bool{}
	ast.Inspect(rt.Decl.Body, func(x ast.Node) bool {
		rs, ok := x.(*ast.RangeStmt)
		if !ok {
			return true
		}
		t := info.TypeOf(rs.X)
		if t == nil || !strings.HasSuffix(t.String(), "httpapi.Endpoint") {
			return true
		}
		roots := map[types.Object]string{}
		if id := identOf(rs.Value); id != nil {
			roots[info.Defs[id]] = "E"
		}
		for iter := 0; iter < 3; iter++ {
			ast.Inspect(rs.Body, func(y ast.Node) bool {
				if as, ok := y.(*ast.AssignStmt); ok && len(as.Lhs) == len(as.Rhs) {
					for i, rhs := range as.Rhs {
						if p := slotPath(info, rhs, roots); p != "" {
							if id := identOf(as.Lhs[i]); id != nil && roots[objOf(info, id)] == "" {
								roots[objOf(info, id)] = p
							}
						}
					}
				}
				if r2, ok := y.(*ast.RangeStmt); ok && r2 != rs {
					if p := slotPath(info, r2.X, roots); p != "" {
						if id := identOf(r2.Value); id != nil && id.Name != "_" && roots[info.Defs[id]] == "" {
							roots[info.Defs[id]] = p + "[*]"
						}
					}
				}
				return true
			})
		}
		for _, app := range appendStmts(info, rs.Body, "") {
			for _, a := range app.Rhs[0].(*ast.CallExpr).Args[1:] {
				if p := slotPath(info, a, roots); p != "" {
					collected[p] = true
				}
			}
		}
		return true
	})
	var keys []string
	for k := range mention {
		keys = append(keys, k)
	}
	sort.Strings(keys)
	if len(keys) < 3 {
		Undecided("axios_api.go: only %d type mentions recognised", len(keys))
	}
	for _, k := range keys {
		pf := strings.SplitN(mention[k], "|", 2)
		r.cond(collected[k], "AGR-C14a", pf[1], "mention of "+k, pf[0],
			"renderTypes collects this slot, so the declaration of the printed type is generated into the file",
			"the method signature prints the type at "+k+", but renderTypes does not collect it: the client file mentions a type (or the Int brand) it never declares")
	}
	var cks []string
	for k := range collected {
		cks = append(cks, k)
	}
	sort.Strings(cks)
	r.note("mentioned_slots", keys)
	r.note("collected_slots", cks)
}

func checkAxiosShape(w *World, r *Result) {
	// one method per endpoint, in order
	ga := w.MustFunc("generator/typescript.GenerateAxios")
	info := ga.Pkg.TypesInfo
	gm := w.MustFunc("generator/typescript.generateMethod")
	good := false
	ast.Inspect(ga.Decl.Body, func(x ast.Node) bool {
		rs, ok := x.(*ast.RangeStmt)
		if !ok || len(rs.Body.List) != 1 {
			return true
		}
		as, ok := rs.Body.List[0].(*ast.AssignStmt)
		if !ok || len(as.Lhs) != 1 || len(as.Rhs) != 1 {
			return true
		}
		ix, ok := as.Lhs[0].(*ast.IndexExpr)
		call, ok2 := as.Rhs[0].(*ast.CallExpr)
		if ok && ok2 && calleeOf(info, call) == gm.Obj && identOf(ix.Index) != nil && identOf(rs.Key) != nil && identOf(ix.Index).Name == identOf(rs.Key).Name &&
			identOf(call.Args[0]) != nil && identOf(rs.Value) != nil && identOf(call.Args[0]).Name == identOf(rs.Value).Name {
			good = true
		}
		if ok2 && calleeOf(info, call) == gm.Obj {
			if _, isApp := as.Rhs[0].(*ast.CallExpr); isApp && !ok {
				good = false
			}
		}
		return true
	})
	if !good {
		// append form
		for _, app := range appendStmts(info, ga.Decl.Body, "") {
			if call, ok := app.Rhs[0].(*ast.CallExpr).Args[1].(*ast.CallExpr); ok && calleeOf(info, call) == gm.Obj {
				good = len(pathCondsNoLoop(ga, app)) == 0
			}
		}
	}
	r.cond(good, "SHP-C14m", ga.Name, "one generateMethod per endpoint, in order", fnPos(w, ga), "apiCalls[i] = generateMethod(endpoint) for every (i, endpoint), unconditionally", "methods are not generated one per endpoint in list order")
	// method name = Contract.Name
	ginfo := gm.Pkg.TypesInfo
	nameOK := false
	ast.Inspect(gm.Decl.Body, func(x ast.Node) bool {
		if as, ok := x.(*ast.AssignStmt); ok && len(as.Rhs) == 1 && strings.HasSuffix(es(as.Rhs[0]), ".Contract.Name") {
			id := identOf(as.Lhs[0])
			// used as first verb argument of the template Sprintf
			ast.Inspect(gm.Decl.Body, func(y ast.Node) bool {
				if call, ok := y.(*ast.CallExpr); ok && fullName(calleeOf(ginfo, call)) == "fmt.Sprintf" && len(call.Args) >= 2 {
					if a := identOf(call.Args[1]); a != nil && id != nil && a.Name == id.Name {
						nameOK = true
					}
				}
				return true
			})
		}
		return true
	})
	r.cond(nameOK, "SHP-C14m", gm.Name, "method named after the handler", fnPos(w, gm), "the first template argument is Contract.Name", "the generated method is not named by Contract.Name")
	// call shape chain
	gc := w.MustFunc("generator/typescript.generateAxiosCall")
	cinfo := gc.Pkg.TypesInfo
	var chain []string
	endsElse := false
	for _, st := range gc.Decl.Body.List {
		is, ok := st.(*ast.IfStmt)
		if !ok || is.Else == nil {
			continue
		}
		for cur := is; cur != nil; {
			chain = append(chain, condCalls(cinfo, cur.Cond))
			switch e := cur.Else.(type) {
			case *ast.IfStmt:
				cur = e
			case *ast.BlockStmt:
				endsElse = true
				cur = nil
			default:
				cur = nil
			}
		}
	}
	want := []string{"withFormData", "hasBodyInput", "!hasBodyInput&expectBodyParam"}
	wantAlt := []string{"withFormData", "hasBodyInput", "expectBodyParam"}
	okChain := strings.Join(chain, " > ") == strings.Join(want, " > ") || strings.Join(chain, " > ") == strings.Join(wantAlt, " > ")
	r.cond(okChain && endsElse, "SHP-C14c", gc.Name, "call-shape chain", fnPos(w, gc), "form data > JSON body > verb expects a body > else, in that order, ending in an unconditional else", "the call-shape chain is {"+strings.Join(chain, " > ")+"} (ends in else: "+boolStr(endsElse)+"): some endpoint kind gets no call or the wrong body argument")
	// null body exactly in the expectBodyParam branch; body argument `params` in hasBodyInput, `formData` in form branch
	branchArg := map[string]string{}
	for _, st := range gc.Decl.Body.List {
		is, ok := st.(*ast.IfStmt)
		if !ok || is.Else == nil {
			continue
		}
		for cur := is; cur != nil; {
			lbl := condCalls(cinfo, cur.Cond)
			branchArg[lbl] = axiosBodyArg(cinfo, cur.Body)
			switch e := cur.Else.(type) {
			case *ast.IfStmt:
				cur = e
			case *ast.BlockStmt:
				branchArg["else"] = axiosBodyArg(cinfo, e)
				cur = nil
			default:
				cur = nil
			}
		}
	}
	expect := map[string]string{"withFormData": "formData", "hasBodyInput": "params", "else": ""}
	for k, v := range expect {
		r.cond(branchArg[k] == v, "SHP-C14c", gc.Name, "body argument in branch "+k, fnPos(w, gc), "second argument of the Axios call is `"+v+"`", "branch "+k+" passes `"+branchArg[k]+"` as request body instead of `"+v+"`")
	}
	nullBranch := branchArg["!hasBodyInput&expectBodyParam"]
	if nullBranch == "" {
		nullBranch = branchArg["expectBodyParam"]
	}
	r.cond(nullBranch == "null", "SHP-C14c", gc.Name, "null body for body-less POST/PUT", fnPos(w, gc), "Axios.post/put(fullUrl, null, ...)", "a body-less POST/PUT does not pass null as body: the config object is sent as the body")
	// expectBodyParam = POST or PUT
	eb := w.MustFunc("generator/typescript.expectBodyParam")
	verbs := map[string]bool{}
	ast.Inspect(eb.Decl.Body, func(x ast.Node) bool {
		if be, ok := x.(*ast.BinaryExpr); ok {
			for _, side := range []ast.Expr{be.X, be.Y} {
				if tv := eb.Pkg.TypesInfo.Types[side]; tv.Value != nil && tv.Value.Kind() == constant.String {
					verbs[constant.StringVal(tv.Value)] = true
				}
			}
		}
		return true
	})
	r.cond(len(verbs) == 2 && verbs["POST"] && verbs["PUT"], "SHP-C14c", eb.Name, "verbs with a body argument = {POST, PUT}", fnPos(w, eb), "axios.post/put take (url, data, config); get/delete take (url, config)", "the set of verbs whose Axios call takes a body argument is not {POST, PUT}")
}

func boolStr(b bool) string {
	if b {
		return "yes"
	}
	return "no"
}

func pathCondsNoLoop(fi *FuncInfo, n ast.Node) []pcond {
	var out []pcond
	for _, c := range pathConds(fi.Decl, n) {
		if !c.loop {
			out = append(out, c)
		}
	}
	return out
}

// condCalls renders a condition as the module predicate functions it calls ("!f&g").
func condCalls(info *types.Info, cond ast.Expr) string {
	var parts []string
	for _, c := range splitCond(cond, true) {
		call, ok := c.expr.(*ast.CallExpr)
		name := es(c.expr)
		if ok {
			if fn := calleeOf(info, call); fn != nil {
				name = fn.Name()
			}
		}
		if !c.truth {
			name = "!" + name
		}
		parts = append(parts, name)
	}
	return strings.Join(parts, "&")
}

// axiosBodyArg extracts, from the format string of the returned Sprintf, the second argument of the Axios call.
func axiosBodyArg(info *types.Info, body *ast.BlockStmt) string {
	res := "?"
	ast.Inspect(body, func(x ast.Node) bool {
		ret, ok := x.(*ast.ReturnStmt)
		if !ok || len(ret.Results) != 1 {
			return true
		}
		call, ok := ret.Results[0].(*ast.CallExpr)
		if !ok || fullName(calleeOf(info, call)) != "fmt.Sprintf" {
			return true
		}
		tv := info.Types[call.Args[0]]
		if tv.Value == nil {
			return true
		}
		f := constant.StringVal(tv.Value)
		i := strings.Index(f, "Axios.%s(")
		if i < 0 {
			return true
		}
		args := strings.Split(strings.TrimSuffix(strings.TrimSpace(f[i+len("Axios.%s("):]), ")"), ",")
		if len(args) == 3 {
			res = strings.TrimSpace(args[1])
		} else if len(args) == 2 {
			res = ""
		}
		return true
	})
	return res
}

func checkFormAgreement(w *World, r *Result) {
	formFields := func(fi *FuncInfo, within ast.Node) []string {
		set := map[string]bool{}
		info := fi.Pkg.TypesInfo
		ast.Inspect(within, func(x ast.Node) bool {
			sel, ok := x.(*ast.SelectorExpr)
			if !ok {
				return true
			}
			v, ok := info.Uses[sel.Sel].(*types.Var)
			if !ok || !v.IsField() {
				return true
			}
			// field of Form, or Name of the JSON TypedParam inside a Form
			rt := info.TypeOf(sel.X)
			if rt != nil && strings.HasSuffix(rt.String(), "httpapi.Form") {
				if v.Name() == "JSON" {
					set["JSON"] = true
				} else {
					set[v.Name()] = true
				}
			}
			return true
		})
		// method calls on Form that read fields (AsTypedValues -> ValueNames)
		ast.Inspect(within, func(x ast.Node) bool {
			if call, ok := x.(*ast.CallExpr); ok {
				if fn := calleeOf(info, call); fn != nil && fn.Name() == "AsTypedValues" {
					set["ValueNames"] = true
				}
			}
			return true
		})
		var out []string
		for k := range set {
			out = append(out, k)
		}
		sort.Strings(out)
		return out
	}
	iz := w.MustFunc("analysis/httpapi.(Form).IsZero")
	ti := w.MustFunc("generator/typescript.typeIn")
	gc := w.MustFunc("generator/typescript.generateAxiosCall")
	a, b, c := formFields(iz, iz.Decl.Body), formFields(ti, ti.Decl.Body), formFields(gc, gc.Decl.Body)
	want := []string{"File", "JSON", "ValueNames"}
	r.cond(setEq(a, want), "AGR-C14f", iz.Name, "IsZero reads {"+strings.Join(a, ",")+"}", fnPos(w, iz), "a form is empty exactly when it has no file, no value and no JSON field", "Form.IsZero does not consult all of File, ValueNames and JSON: a form that only has the missing part is treated as 'no form' and its fields are never sent")
	r.cond(setEq(b, want), "AGR-C14f", ti.Name, "signature arguments from {"+strings.Join(b, ",")+"}", fnPos(w, ti), "file, formParams and formValue arguments", "the method signature does not cover all three form parts")
	r.cond(setEq(c, want), "AGR-C14f", gc.Name, "formData.append from {"+strings.Join(c, ",")+"}", fnPos(w, gc), "file, values and JSON field are appended", "FormData is not filled from all three form parts")
}

package main

// Shared helpers for the agreement / shape / flow rules (E-AGR, FLW, PTH).

import (
	"go/ast"
	"go/token"
	"go/types"
	"sort"
	"strings"

	"golang.org/x/tools/go/packages"
)

// render prints an expression with selected objects replaced by placeholders, so that rules do not
// depend on local variable names.
func render(info *types.Info, e ast.Expr, subst map[types.Object]string) string {
	if e == nil {
		return ""
	}
	s := es(e)
	if len(subst) == 0 {
		return s
	}
	// collect identifier positions to replace
	type rep struct {
		from, to int
		with     string
	}
	var reps []rep
	base := e.Pos()
	// types.ExprString does not preserve positions; re-render by walking
	var b strings.Builder
	var walk func(x ast.Expr)
	walk = func(x ast.Expr) {
		switch v := x.(type) {
		case *ast.Ident:
			if o := objOf(info, v); o != nil {
				if p, ok := subst[o]; ok {
					b.WriteString(p)
					return
				}
			}
			b.WriteString(v.Name)
		case *ast.SelectorExpr:
			walk(v.X)
			b.WriteString("." + v.Sel.Name)
		case *ast.CallExpr:
			walk(v.Fun)
			b.WriteString("(")
			for i, a := range v.Args {
				if i > 0 {
					b.WriteString(", ")
				}
				walk(a)
			}
			b.WriteString(")")
		case *ast.UnaryExpr:
			b.WriteString(v.Op.String())
			walk(v.X)
		case *ast.BinaryExpr:
			walk(v.X)
			b.WriteString(" " + v.Op.String() + " ")
			walk(v.Y)
		case *ast.ParenExpr:
			b.WriteString("(")
			walk(v.X)
			b.WriteString(")")
		case *ast.IndexExpr:
			walk(v.X)
			b.WriteString("[")
			walk(v.Index)
			b.WriteString("]")
		case *ast.StarExpr:
			b.WriteString("*")
			walk(v.X)
		case *ast.TypeAssertExpr:
			walk(v.X)
			b.WriteString(".(")
			if v.Type != nil {
				walk(v.Type)
			} else {
				b.WriteString("type")
			}
			b.WriteString(")")
		default:
			b.WriteString(es(x))
		}
	}
	_ = reps
	_ = base
	walk(e)
	return b.String()
}

type pcond struct {
	expr   ast.Expr
	truth  bool
	loop   bool            // comes from a for-loop condition
	exit   *ast.IfStmt     // negation of this early exit
	text   string          // for type-switch cases and comma-ok
	clause *ast.CaseClause // the case clause a text condition comes from
	sw     ast.Stmt        // and its switch statement
}

// splitCond flattens && (when true) and || (when false) and strips negations.
func splitCond(e ast.Expr, truth bool) []pcond {
	switch v := ast.Unparen(e).(type) {
	case *ast.UnaryExpr:
		if v.Op == token.NOT {
			return splitCond(v.X, !truth)
		}
	case *ast.BinaryExpr:
		if (v.Op == token.LAND && truth) || (v.Op == token.LOR && !truth) {
			return append(splitCond(v.X, truth), splitCond(v.Y, truth)...)
		}
	}
	return []pcond{{expr: ast.Unparen(e), truth: truth}}
}

// pathConds returns the conditions known to hold at target inside fd: enclosing if/else branches,
// negations of preceding early exits in the enclosing statement lists, enclosing case clauses.
func pathConds(fd *ast.FuncDecl, target ast.Node) []pcond {
	var out []pcond
	var path []ast.Node
	found := false
	var stack []ast.Node
	ast.Inspect(fd, func(n ast.Node) bool {
		if found {
			return false
		}
		if n == nil {
			stack = stack[:len(stack)-1]
			return false
		}
		stack = append(stack, n)
		if n == target {
			path = append([]ast.Node{}, stack...)
			found = true
			return false
		}
		return true
	})
	if !found {
		return nil
	}
	enclosingSwitch := func(i int) ast.Stmt {
		for j := i - 1; j >= 0; j-- {
			switch s := path[j].(type) {
			case *ast.SwitchStmt:
				return s
			case *ast.TypeSwitchStmt:
				return s
			}
		}
		return nil
	}
	for i := 0; i < len(path)-1; i++ {
		child := path[i+1]
		switch p := path[i].(type) {
		case *ast.IfStmt:
			if child == ast.Node(p.Body) {
				out = append(out, splitCond(p.Cond, true)...)
				out = append(out, initConds(p.Init, p.Cond, true)...)
			} else if p.Else != nil && child == ast.Node(p.Else) {
				out = append(out, splitCond(p.Cond, false)...)
			}
		case *ast.BlockStmt:
			out = append(out, earlyExitConds(p.List, child)...)
		case *ast.CaseClause:
			out = append(out, earlyExitConds(p.Body, child)...)
			if len(p.List) > 0 {
				var names []string
				for _, e := range p.List {
					names = append(names, es(e))
				}
				out = append(out, pcond{text: "case " + strings.Join(names, ","), truth: true, clause: p, sw: enclosingSwitch(i)})
			} else {
				out = append(out, pcond{text: "default", truth: true, clause: p, sw: enclosingSwitch(i)})
			}
		case *ast.ForStmt:
			if p.Cond != nil && child == ast.Node(p.Body) {
				for _, c := range splitCond(p.Cond, true) {
					c.loop = true
					out = append(out, c)
				}
			}
		}
	}
	return out
}

func initConds(init ast.Stmt, cond ast.Expr, truth bool) []pcond { return nil }

func earlyExitConds(list []ast.Stmt, upto ast.Node) []pcond {
	var out []pcond
	for _, st := range list {
		if st == upto {
			break
		}
		if is, ok := st.(*ast.IfStmt); ok && terminates(is.Body) {
			// if c1 {exit} else if c2 {exit} ... (no final else): all conditions are false afterwards
			chain := []*ast.IfStmt{is}
			okChain := true
			for cur := is; cur.Else != nil; {
				next, isIf := cur.Else.(*ast.IfStmt)
				if !isIf || !terminates(next.Body) {
					okChain = false
					break
				}
				chain = append(chain, next)
				cur = next
			}
			if !okChain {
				continue
			}
			for _, link := range chain {
				for _, c := range splitCond(link.Cond, false) {
					c.exit = link
					out = append(out, c)
				}
			}
		}
	}
	return out
}

// condSet renders path conditions as a sorted set of strings with placeholders.
func condSet(info *types.Info, conds []pcond, subst map[types.Object]string) []string {
	var out []string
	for _, c := range conds {
		s := c.text
		if c.expr != nil {
			s = render(info, c.expr, subst)
		}
		if !c.truth {
			s = "!(" + s + ")"
		}
		out = append(out, s)
	}
	sort.Strings(out)
	return uniqStr(out)
}

// ---------- struct-field loops ----------

type fieldLoop struct {
	fn    *FuncInfo
	pkg   *packages.Package
	rs    *ast.RangeStmt
	v     types.Object // loop value variable
	idx   types.Object
	subst map[types.Object]string
	over  string // rendered range expression
	kind  string // "StructField" or "Column"
}

func elemTypeName(t types.Type) string {
	switch u := t.Underlying().(type) {
	case *types.Slice:
		if n, ok := u.Elem().(*types.Named); ok {
			return n.Obj().Pkg().Path() + "." + n.Obj().Name()
		}
	}
	return ""
}

// fieldLoops lists every `for _, f := range X` over []analysis.StructField or []sql.Column.
func fieldLoops(w *World) []*fieldLoop {
	var out []*fieldLoop
	var fis []*FuncInfo
	for _, fi := range w.Funcs {
		fis = append(fis, fi)
	}
	sort.Slice(fis, func(i, j int) bool { return fis[i].Name < fis[j].Name })
	for _, fi := range fis {
		info := fi.Pkg.TypesInfo
		ast.Inspect(fi.Decl.Body, func(n ast.Node) bool {
			rs, ok := n.(*ast.RangeStmt)
			if !ok {
				return true
			}
			t := info.TypeOf(rs.X)
			if t == nil {
				return true
			}
			kind := ""
			switch elemTypeName(t) {
			case modPath + "/analysis.StructField":
				kind = "StructField"
			case modPath + "/analysis/sql.Column":
				kind = "Column"
			default:
				return true
			}
			fl := &fieldLoop{fn: fi, pkg: fi.Pkg, rs: rs, subst: map[types.Object]string{}, over: es(rs.X), kind: kind}
			if id := identOf(rs.Value); id != nil && id.Name != "_" {
				fl.v = info.Defs[id]
				fl.subst[fl.v] = "$f"
			}
			if id := identOf(rs.Key); id != nil && id.Name != "_" {
				fl.idx = info.Defs[id]
				fl.subst[fl.idx] = "$i"
			}
			out = append(out, fl)
			return true
		})
	}
	return out
}

// usesOf returns the rendered selector chains rooted at obj inside n (e.g. "$f.Field.Name()", "$f.JSONName()").
func usesOf(info *types.Info, n ast.Node, obj types.Object, ph string) []string {
	seen := map[string]bool{}
	var out []string
	var visit func(x ast.Node) bool
	visit = func(x ast.Node) bool {
		switch v := x.(type) {
		case *ast.CallExpr:
			if root := rootIdent(v.Fun); root != nil && info.Uses[root] == obj {
				s := render(info, v.Fun, map[types.Object]string{obj: ph}) + "()"
				if len(v.Args) > 0 {
					s = render(info, v, map[types.Object]string{obj: ph})
				}
				if !seen[s] {
					seen[s] = true
					out = append(out, s)
				}
				for _, a := range v.Args {
					ast.Inspect(a, visit)
				}
				return false
			}
		case *ast.SelectorExpr:
			if root := rootIdent(v); root != nil && info.Uses[root] == obj {
				s := render(info, v, map[types.Object]string{obj: ph})
				if !seen[s] {
					seen[s] = true
					out = append(out, s)
				}
				return false
			}
		case *ast.Ident:
			if info.Uses[v] == obj {
				if !seen[ph] {
					seen[ph] = true
					out = append(out, ph)
				}
			}
		}
		return true
	}
	ast.Inspect(n, visit)
	sort.Strings(out)
	return out
}

func rootIdent(e ast.Expr) *ast.Ident {
	for {
		switch v := ast.Unparen(e).(type) {
		case *ast.SelectorExpr:
			e = v.X
		case *ast.IndexExpr:
			e = v.X
		case *ast.CallExpr:
			e = v.Fun
		case *ast.TypeAssertExpr:
			e = v.X
		case *ast.StarExpr:
			e = v.X
		case *ast.Ident:
			return v
		default:
			return nil
		}
	}
}

// firstStmtIsGuard: body starts with `if <cond> { continue }`; returns the rendered negated guard set.
func leadingGuards(info *types.Info, body *ast.BlockStmt, subst map[types.Object]string) []string {
	var out []string
	for _, st := range body.List {
		is, ok := st.(*ast.IfStmt)
		if !ok || is.Else != nil || !terminates(is.Body) || is.Init != nil {
			// allow `if _, isGuard := f.IsSQLGuard(); ...` forms through Init
			if ok && is.Else == nil && terminates(is.Body) && is.Init != nil {
				out = append(out, condSetWithInit(info, is, subst)...)
				continue
			}
			break
		}
		out = append(out, condSet(info, splitCond(is.Cond, true), subst)...)
	}
	return out
}

func condSetWithInit(info *types.Info, is *ast.IfStmt, subst map[types.Object]string) []string {
	// substitute variables defined by the init with their defining expression
	local := map[types.Object]string{}
	for k, v := range subst {
		local[k] = v
	}
	if as, ok := is.Init.(*ast.AssignStmt); ok && len(as.Rhs) == 1 {
		rhs := render(info, as.Rhs[0], subst)
		for i, l := range as.Lhs {
			if id := identOf(l); id != nil && id.Name != "_" {
				suffix := ""
				if len(as.Lhs) > 1 {
					suffix = "#" + string(rune('0'+i))
				}
				local[info.Defs[id]] = rhs + suffix
			}
		}
	}
	return condSet(info, splitCond(is.Cond, true), local)
}

// callsIn lists resolved callee full names within n.
func callsIn(info *types.Info, n ast.Node) []string {
	var out []string
	ast.Inspect(n, func(x ast.Node) bool {
		if call, ok := x.(*ast.CallExpr); ok {
			if fn := calleeOf(info, call); fn != nil {
				out = append(out, fn.FullName())
			}
		}
		return true
	})
	return out
}

func containsStr(xs []string, s string) bool {
	for _, x := range xs {
		if x == s {
			return true
		}
	}
	return false
}

func setEq(a, b []string) bool {
	if len(a) != len(b) {
		return false
	}
	a2 := append([]string{}, a...)
	b2 := append([]string{}, b...)
	sort.Strings(a2)
	sort.Strings(b2)
	for i := range a2 {
		if a2[i] != b2[i] {
			return false
		}
	}
	return true
}

func fnPos(w *World, fi *FuncInfo) string { return w.Pos(fi.Decl.Pos()) }

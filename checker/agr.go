package main

// Shared helpers for the agreement / shape / flow rules (E-AGR, FLW, PTH).

import (
	"go/ast"
	"go/constant"
	"go/token"
	"go/types"
	"sort"
	"strings"

	"golang.org/x/tools/go/packages"
)

// render prints an expression with selected objects replaced by placeholders, so that rules do not
// depend on local variable names.
func render(info *types.Info, e ast.Expr, subst map[types.Object]string) string {
	if e == nil {
		return ""
	}
	s := es(e)
	if len(subst) == 0 && len(renamedFuncs) == 0 {
		return s
	}
	// collect identifier positions to replace
	type rep struct {
		from, to int
		with     string
	}
	var reps []rep
	base := e.Pos()
	// types.ExprString does not preserve positions; re-render by walking
	var b strings.Builder
	var walk func(x ast.Expr)
	walk = func(x ast.Expr) {
		switch v := x.(type) {
		case *ast.Ident:
			if o := objOf(info, v); o != nil {
				if p, ok := subst[o]; ok {
					b.WriteString(p)
					return
				}
				if fn, isFn := o.(*types.Func); isFn {
					if old, ok := renamedFuncs[fn]; ok {
						b.WriteString(old)
						return
					}
				}
			}
			b.WriteString(v.Name)
		case *ast.SelectorExpr:
			walk(v.X)
			b.WriteString("." + v.Sel.Name)
		case *ast.CallExpr:
			walk(v.Fun)
			b.WriteString("(")
			for i, a := range v.Args {
				if i > 0 {
					b.WriteString(", ")
				}
				walk(a)
			}
			b.WriteString(")")
		case *ast.UnaryExpr:
			b.WriteString(v.Op.String())
			walk(v.X)
		case *ast.BinaryExpr:
			walk(v.X)
			b.WriteString(" " + v.Op.String() + " ")
			walk(v.Y)
		case *ast.ParenExpr:
			b.WriteString("(")
			walk(v.X)
			b.WriteString(")")
		case *ast.IndexExpr:
			walk(v.X)
			b.WriteString("[")
			walk(v.Index)
			b.WriteString("]")
		case *ast.StarExpr:
			b.WriteString("*")
			walk(v.X)
		case *ast.SliceExpr:
			walk(v.X)
			b.WriteString("[")
			if v.Low != nil {
				walk(v.Low)
			}
			b.WriteString(":")
			if v.High != nil {
				walk(v.High)
			}
			if v.Slice3 {
				b.WriteString(":")
				if v.Max != nil {
					walk(v.Max)
				}
			}
			b.WriteString("]")
		case *ast.TypeAssertExpr:
			walk(v.X)
			b.WriteString(".(")
			if v.Type != nil {
				walk(v.Type)
			} else {
				b.WriteString("type")
			}
			b.WriteString(")")
		default:
			b.WriteString(es(x))
		}
	}
	_ = reps
	_ = base
	walk(e)
	return b.String()
}

type pcond struct {
	expr   ast.Expr
	truth  bool
	loop   bool            // comes from a for-loop condition
	exit   *ast.IfStmt     // negation of this early exit
	text   string          // for type-switch cases and comma-ok
	clause *ast.CaseClause // the case clause a text condition comes from
	sw     ast.Stmt        // and its switch statement
}

// splitCond flattens && (when true) and || (when false) and strips negations.
func splitCond(e ast.Expr, truth bool) []pcond {
	switch v := ast.Unparen(e).(type) {
	case *ast.UnaryExpr:
		if v.Op == token.NOT {
			return splitCond(v.X, !truth)
		}
	case *ast.BinaryExpr:
		if (v.Op == token.LAND && truth) || (v.Op == token.LOR && !truth) {
			return append(splitCond(v.X, truth), splitCond(v.Y, truth)...)
		}
	}
	return []pcond{{expr: ast.Unparen(e), truth: truth}}
}

// pathConds returns the conditions known to hold at target inside fd: enclosing if/else branches,
// negations of preceding early exits in the enclosing statement lists, enclosing case clauses.
func pathConds(fd *ast.FuncDecl, target ast.Node) []pcond {
	return expandBoolLocals(fd, pathCondsRaw(fd, target), 3)
}

// pathCondsRaw: pathConds without the expansion of boolean locals and helper results (conditions as written).
func pathCondsRaw(fd *ast.FuncDecl, target ast.Node) []pcond {
	var out []pcond
	var path []ast.Node
	found := false
	var stack []ast.Node
	ast.Inspect(fd, func(n ast.Node) bool {
		if found {
			return false
		}
		if n == nil {
			stack = stack[:len(stack)-1]
			return false
		}
		stack = append(stack, n)
		if n == target {
			path = append([]ast.Node{}, stack...)
			found = true
			return false
		}
		return true
	})
	if !found {
		return nil
	}
	enclosingSwitch := func(i int) ast.Stmt {
		for j := i - 1; j >= 0; j-- {
			switch s := path[j].(type) {
			case *ast.SwitchStmt:
				return s
			case *ast.TypeSwitchStmt:
				return s
			}
		}
		return nil
	}
	for i := 0; i < len(path)-1; i++ {
		child := path[i+1]
		switch p := path[i].(type) {
		case *ast.IfStmt:
			if child == ast.Node(p.Body) {
				out = append(out, splitCond(p.Cond, true)...)
				out = append(out, initConds(p.Init, p.Cond, true)...)
			} else if p.Else != nil && child == ast.Node(p.Else) {
				out = append(out, splitCond(p.Cond, false)...)
			}
		case *ast.BlockStmt:
			out = append(out, earlyExitConds(p.List, child)...)
		case *ast.CaseClause:
			out = append(out, earlyExitConds(p.Body, child)...)
			// a tagless switch is an if / else-if chain: the matched case holds, the earlier ones do not
			if sw, ok := enclosingSwitch(i).(*ast.SwitchStmt); ok && sw.Tag == nil {
				for _, cl := range sw.Body.List {
					cc := cl.(*ast.CaseClause)
					if cc == p {
						break
					}
					for _, e := range cc.List {
						out = append(out, splitCond(e, false)...)
					}
				}
				if len(p.List) == 1 {
					out = append(out, splitCond(p.List[0], true)...)
					continue
				}
				if len(p.List) == 0 { // default: every case is false
					for _, cl := range sw.Body.List {
						for _, e := range cl.(*ast.CaseClause).List {
							out = append(out, splitCond(e, false)...)
						}
					}
					continue
				}
			}
			if len(p.List) > 0 {
				var names []string
				for _, e := range p.List {
					names = append(names, es(e))
				}
				out = append(out, pcond{text: "case " + strings.Join(names, ","), truth: true, clause: p, sw: enclosingSwitch(i)})
			} else {
				out = append(out, pcond{text: "default", truth: true, clause: p, sw: enclosingSwitch(i)})
			}
		case *ast.ForStmt:
			if p.Cond != nil && child == ast.Node(p.Body) {
				for _, c := range splitCond(p.Cond, true) {
					c.loop = true
					out = append(out, c)
				}
			}
		}
	}
	return out
}

// expandBoolLocals replaces a condition that is a local boolean variable assigned exactly once, from a boolean
// expression (`isMerged := field.Embedded() && jsonName == ""`), by the conditions of that expression.
func expandBoolLocals(fd *ast.FuncDecl, conds []pcond, depth int) []pcond {
	if depth == 0 {
		return conds
	}
	var out []pcond
	changed := false
	for _, c := range conds {
		id, ok := c.expr.(*ast.Ident)
		if !ok || id.Obj == nil && id.Name == "" {
			out = append(out, c)
			continue
		}
		var defs []ast.Expr
		n := 0
		ast.Inspect(fd, func(x ast.Node) bool {
			as, ok := x.(*ast.AssignStmt)
			if !ok {
				return true
			}
			for i, l := range as.Lhs {
				if lid, ok := l.(*ast.Ident); ok && lid.Name == id.Name && sameDecl(lid, id) {
					n++
					if len(as.Lhs) == len(as.Rhs) {
						defs = append(defs, as.Rhs[i])
					} else {
						defs = append(defs, nil) // comma-ok / tuple: not a boolean expression of its own
					}
				}
			}
			return true
		})
		if n == 1 && len(defs) == 1 && defs[0] == nil && c.truth {
			// the ok result of a helper of the module: what the helper's one successful return requires
			if sc, ok := expandHelperOk(fd, id); ok {
				for _, x := range sc {
					x.loop = c.loop
					if x.exit == nil {
						x.exit = c.exit
					}
					out = append(out, x)
				}
				changed = true
				continue
			}
		}
		if n != 1 || len(defs) != 1 || defs[0] == nil {
			out = append(out, c)
			continue
		}
		switch d := ast.Unparen(defs[0]).(type) {
		case *ast.BinaryExpr, *ast.UnaryExpr, *ast.CallExpr:
			if be, ok := d.(*ast.BinaryExpr); ok {
				switch be.Op.String() {
				case "&&", "||", "==", "!=", "<", "<=", ">", ">=":
				default:
					out = append(out, c)
					continue
				}
			}
			for _, sc := range splitCond(defs[0], c.truth) {
				sc.loop, sc.exit = c.loop, c.exit
				out = append(out, sc)
			}
			changed = true
		default:
			out = append(out, c)
		}
	}
	if changed {
		return expandBoolLocals(fd, out, depth-1)
	}
	return out
}

// sameDecl: two identifiers resolved by the parser to the same declaration (go/ast objects), or, when object
// resolution is off, identifiers of the same name.
func sameDecl(a, b *ast.Ident) bool {
	if a.Obj != nil && b.Obj != nil {
		return a.Obj == b.Obj
	}
	return a.Name == b.Name
}

func initConds(init ast.Stmt, cond ast.Expr, truth bool) []pcond { return nil }

func earlyExitConds(list []ast.Stmt, upto ast.Node) []pcond {
	var out []pcond
	for _, st := range list {
		if st == upto {
			break
		}
		if is, ok := st.(*ast.IfStmt); ok && terminates(is.Body) {
			// if c1 {exit} else if c2 {exit} ... (no final else): all conditions are false afterwards
			chain := []*ast.IfStmt{is}
			okChain := true
			for cur := is; cur.Else != nil; {
				next, isIf := cur.Else.(*ast.IfStmt)
				if !isIf || !terminates(next.Body) {
					okChain = false
					break
				}
				chain = append(chain, next)
				cur = next
			}
			if !okChain {
				continue
			}
			for _, link := range chain {
				for _, c := range splitCond(link.Cond, false) {
					c.exit = link
					out = append(out, c)
				}
			}
		}
	}
	return out
}

// condSet renders path conditions as a sorted set of strings with placeholders.
func condSet(info *types.Info, conds []pcond, subst map[types.Object]string) []string {
	var out []string
	for _, c := range conds {
		s := c.text
		if c.expr != nil {
			s = render(info, c.expr, subst)
		}
		if !c.truth {
			s = "!(" + s + ")"
		}
		out = append(out, s)
	}
	sort.Strings(out)
	return uniqStr(out)
}

// condSetN is condSet with comparisons in a canonical form, so that `if a == b {} else {exit}`, `if a != b {exit}`
// and `if !(a == b) {exit}` render alike: `!=` is the negation of `==` (operands sorted), `>`/`>=` are `<`/`<=` with
// the operands swapped, and a negated ordering is the opposite ordering.
func condSetN(info *types.Info, conds []pcond, subst map[types.Object]string) []string {
	var out []string
	for _, c := range conds {
		out = append(out, normCond(info, c, subst))
	}
	sort.Strings(out)
	return uniqStr(out)
}

func normCond(info *types.Info, c pcond, subst map[types.Object]string) string {
	neg := func(s string, truth bool) string {
		if truth {
			return s
		}
		return "!(" + s + ")"
	}
	if c.expr == nil {
		return neg(c.text, c.truth)
	}
	if u, ok := ast.Unparen(c.expr).(*ast.UnaryExpr); ok && u.Op == token.NOT {
		return normCond(info, pcond{expr: ast.Unparen(u.X), truth: !c.truth}, subst)
	}
	be, ok := ast.Unparen(c.expr).(*ast.BinaryExpr)
	if !ok {
		return neg(render(info, c.expr, subst), c.truth)
	}
	// a disjunction (`a || b` holding, or `a && b` not holding: De Morgan) is rendered as the sorted set of its
	// canonical alternatives; conjunctions never reach this point whole (splitCond flattens them)
	if (be.Op == token.LOR && c.truth) || (be.Op == token.LAND && !c.truth) {
		var alts []string
		var collect func(e ast.Expr)
		collect = func(e ast.Expr) {
			e = ast.Unparen(e)
			if b2, ok := e.(*ast.BinaryExpr); ok && b2.Op == be.Op {
				collect(b2.X)
				collect(b2.Y)
				return
			}
			var parts []string
			for _, sc := range splitCond(e, c.truth) {
				parts = append(parts, normCond(info, sc, subst))
			}
			sort.Strings(parts)
			alts = append(alts, strings.Join(parts, " && "))
		}
		collect(be)
		sort.Strings(alts)
		return "(" + strings.Join(uniqStr(alts), " || ") + ")"
	}
	x, y := render(info, be.X, subst), render(info, be.Y, subst)
	truth := c.truth
	op := be.Op
	switch op {
	case token.NEQ:
		op, truth = token.EQL, !truth
	case token.GTR:
		op, x, y = token.LSS, y, x
	case token.GEQ:
		op, x, y = token.LEQ, y, x
	}
	switch op {
	case token.EQL:
		if y < x {
			x, y = y, x
		}
		return neg(x+" == "+y, truth)
	case token.LSS:
		if !truth {
			return y + " <= " + x
		}
		return x + " < " + y
	case token.LEQ:
		if !truth {
			return y + " < " + x
		}
		return x + " <= " + y
	}
	return neg(render(info, c.expr, subst), c.truth)
}

// ---------- struct-field loops ----------

type fieldLoop struct {
	fn    *FuncInfo
	pkg   *packages.Package
	rs    *ast.RangeStmt
	v     types.Object // loop value variable
	idx   types.Object
	subst map[types.Object]string
	over  string // rendered range expression
	kind  string // "StructField" or "Column"
}

func elemTypeName(t types.Type) string {
	switch u := t.Underlying().(type) {
	case *types.Slice:
		if n, ok := u.Elem().(*types.Named); ok {
			return n.Obj().Pkg().Path() + "." + n.Obj().Name()
		}
	}
	return ""
}

// fieldLoops lists every `for _, f := range X` over []analysis.StructField or []sql.Column.
func fieldLoops(w *World) []*fieldLoop {
	var out []*fieldLoop
	var fis []*FuncInfo
	for _, fi := range w.Funcs {
		fis = append(fis, fi)
	}
	sort.Slice(fis, func(i, j int) bool { return fis[i].Name < fis[j].Name })
	for _, fi := range fis {
		info := fi.Pkg.TypesInfo
		ast.Inspect(fi.Decl.Body, func(n ast.Node) bool {
			rs, ok := n.(*ast.RangeStmt)
			if !ok {
				return true
			}
			t := info.TypeOf(rs.X)
			if t == nil {
				return true
			}
			kind := ""
			switch elemTypeName(t) {
			case modPath + "/analysis.StructField":
				kind = "StructField"
			case modPath + "/analysis/sql.Column":
				kind = "Column"
			default:
				return true
			}
			fl := &fieldLoop{fn: fi, pkg: fi.Pkg, rs: rs, subst: map[types.Object]string{}, over: es(rs.X), kind: kind}
			if id := identOf(rs.Value); id != nil && id.Name != "_" {
				fl.v = info.Defs[id]
				fl.subst[fl.v] = "$f"
			}
			if id := identOf(rs.Key); id != nil && id.Name != "_" {
				fl.idx = info.Defs[id]
				fl.subst[fl.idx] = "$i"
			}
			out = append(out, fl)
			return true
		})
	}
	return out
}

// usesOf returns the rendered selector chains rooted at obj inside n (e.g. "$f.Field.Name()", "$f.JSONName()").
func usesOf(info *types.Info, n ast.Node, obj types.Object, ph string) []string {
	seen := map[string]bool{}
	var out []string
	var visit func(x ast.Node) bool
	visit = func(x ast.Node) bool {
		switch v := x.(type) {
		case *ast.CallExpr:
			if root := rootIdent(v.Fun); root != nil && info.Uses[root] == obj {
				s := render(info, v.Fun, map[types.Object]string{obj: ph}) + "()"
				if len(v.Args) > 0 {
					s = render(info, v, map[types.Object]string{obj: ph})
				}
				if !seen[s] {
					seen[s] = true
					out = append(out, s)
				}
				for _, a := range v.Args {
					ast.Inspect(a, visit)
				}
				return false
			}
		case *ast.SelectorExpr:
			if root := rootIdent(v); root != nil && info.Uses[root] == obj {
				s := render(info, v, map[types.Object]string{obj: ph})
				if !seen[s] {
					seen[s] = true
					out = append(out, s)
				}
				return false
			}
		case *ast.Ident:
			if info.Uses[v] == obj {
				if !seen[ph] {
					seen[ph] = true
					out = append(out, ph)
				}
			}
		}
		return true
	}
	ast.Inspect(n, visit)
	sort.Strings(out)
	return out
}

func rootIdent(e ast.Expr) *ast.Ident {
	for {
		switch v := ast.Unparen(e).(type) {
		case *ast.SelectorExpr:
			e = v.X
		case *ast.IndexExpr:
			e = v.X
		case *ast.CallExpr:
			e = v.Fun
		case *ast.TypeAssertExpr:
			e = v.X
		case *ast.StarExpr:
			e = v.X
		case *ast.Ident:
			return v
		default:
			return nil
		}
	}
}

// firstStmtIsGuard: body starts with `if <cond> { continue }`; returns the rendered negated guard set.
func leadingGuards(info *types.Info, body *ast.BlockStmt, subst map[types.Object]string) []string {
	var out []string
	for _, st := range body.List {
		is, ok := st.(*ast.IfStmt)
		if !ok || is.Else != nil || !terminates(is.Body) || is.Init != nil {
			// allow `if _, isGuard := f.IsSQLGuard(); ...` forms through Init
			if ok && is.Else == nil && terminates(is.Body) && is.Init != nil {
				out = append(out, condSetWithInit(info, is, subst)...)
				continue
			}
			break
		}
		out = append(out, condSet(info, splitCond(is.Cond, true), subst)...)
	}
	return out
}

func condSetWithInit(info *types.Info, is *ast.IfStmt, subst map[types.Object]string) []string {
	// substitute variables defined by the init with their defining expression
	local := map[types.Object]string{}
	for k, v := range subst {
		local[k] = v
	}
	if as, ok := is.Init.(*ast.AssignStmt); ok && len(as.Rhs) == 1 {
		rhs := render(info, as.Rhs[0], subst)
		for i, l := range as.Lhs {
			if id := identOf(l); id != nil && id.Name != "_" {
				suffix := ""
				if len(as.Lhs) > 1 {
					suffix = "#" + string(rune('0'+i))
				}
				local[info.Defs[id]] = rhs + suffix
			}
		}
	}
	return condSet(info, splitCond(is.Cond, true), local)
}

// callsIn lists resolved callee full names within n.
func callsIn(info *types.Info, n ast.Node) []string {
	var out []string
	ast.Inspect(n, func(x ast.Node) bool {
		if call, ok := x.(*ast.CallExpr); ok {
			if fn := calleeOf(info, call); fn != nil {
				out = append(out, fn.FullName())
			}
		}
		return true
	})
	return out
}

func containsStr(xs []string, s string) bool {
	for _, x := range xs {
		if x == s {
			return true
		}
	}
	return false
}

func setEq(a, b []string) bool {
	if len(a) != len(b) {
		return false
	}
	a2 := append([]string{}, a...)
	b2 := append([]string{}, b...)
	sort.Strings(a2)
	sort.Strings(b2)
	for i := range a2 {
		if a2[i] != b2[i] {
			return false
		}
	}
	return true
}

func fnPos(w *World, fi *FuncInfo) string { return w.Pos(fi.Decl.Pos()) }

// accum is one statement that adds an element to a collection inside a loop: `xs = append(xs, v…)`, or a store
// `xs[i] = v` into a slice pre-sized to the ranged collection (`xs := make([]T, len(R))` with i the range index over
// R), which produces the same slice as the append when it is reached on every iteration.
type accum struct {
	stmt   *ast.AssignStmt
	target string // rendered collection
	values []ast.Expr
	sized  bool // the pre-sized form
}

func accumStmts(info *types.Info, fd *ast.FuncDecl, rs *ast.RangeStmt) []accum {
	var out []accum
	for _, as := range appendStmts(info, rs.Body, "") {
		out = append(out, accum{stmt: as, target: es(as.Lhs[0]), values: as.Rhs[0].(*ast.CallExpr).Args[1:]})
	}
	key := identOf(rs.Key)
	if key == nil || key.Name == "_" {
		return out
	}
	keyObj := objOf(info, key)
	ast.Inspect(rs.Body, func(x ast.Node) bool {
		as, ok := x.(*ast.AssignStmt)
		if !ok || len(as.Lhs) != 1 || len(as.Rhs) != 1 || as.Tok != token.ASSIGN {
			return true
		}
		ix, ok := as.Lhs[0].(*ast.IndexExpr)
		if !ok || identOf(ix.Index) == nil || objOf(info, identOf(ix.Index)) != keyObj || identOf(ix.X) == nil {
			return true
		}
		if presizedTo(info, fd, objOf(info, identOf(ix.X)), rs.X) {
			out = append(out, accum{stmt: as, target: es(ix.X), values: as.Rhs, sized: true})
		}
		return true
	})
	sort.Slice(out, func(i, j int) bool { return out[i].stmt.Pos() < out[j].stmt.Pos() })
	return out
}

// presizedTo: v is defined once, by `make([]T, len(R))` with R the ranged expression.
func presizedTo(info *types.Info, fd *ast.FuncDecl, v types.Object, ranged ast.Expr) bool {
	n, good := 0, false
	ast.Inspect(fd.Body, func(x ast.Node) bool {
		var lhs, rhs []ast.Expr
		switch d := x.(type) {
		case *ast.AssignStmt:
			lhs, rhs = d.Lhs, d.Rhs
		case *ast.ValueSpec: // var xs = make(…)
			for _, nm := range d.Names {
				lhs = append(lhs, nm)
			}
			rhs = d.Values
		default:
			return true
		}
		for i, l := range lhs {
			id := identOf(l)
			if id == nil || objOf(info, id) != v {
				continue
			}
			n++
			if len(lhs) != len(rhs) {
				continue
			}
			call, ok := ast.Unparen(rhs[i]).(*ast.CallExpr)
			if !ok || !isBuiltinCall(info, call, "make") || len(call.Args) != 2 {
				continue
			}
			ln, ok := ast.Unparen(call.Args[1]).(*ast.CallExpr)
			if ok && isBuiltinCall(info, ln, "len") && es(ln.Args[0]) == es(ranged) {
				good = true
			}
		}
		return true
	})
	return n == 1 && good
}

// reachConds renders (canonically, see condSetN) the conditions under which target is reached within one iteration
// of the loop rs: enclosing branches and the negations of earlier early exits inside the loop body. The guard-first
// form `if !c { continue }; use` and the nested form `if c { use }` give the same set.
func reachConds(info *types.Info, fd *ast.FuncDecl, rs *ast.RangeStmt, target ast.Node, subst map[types.Object]string) []string {
	// variables bound by the init of an if (`if _, isGuard := c.IsSQLGuard(); isGuard`) stand for what they are bound to
	local := map[types.Object]string{}
	for k, v := range subst {
		local[k] = v
	}
	ast.Inspect(rs.Body, func(x ast.Node) bool {
		is, ok := x.(*ast.IfStmt)
		if !ok {
			return true
		}
		if as, ok := is.Init.(*ast.AssignStmt); ok && as.Tok == token.DEFINE && len(as.Rhs) == 1 {
			rhs := render(info, as.Rhs[0], subst)
			for i, l := range as.Lhs {
				if id := identOf(l); id != nil && id.Name != "_" && info.Defs[id] != nil {
					suffix := ""
					if len(as.Lhs) > 1 {
						suffix = "#" + string(rune('0'+i))
					}
					local[info.Defs[id]] = rhs + suffix
				}
			}
		}
		return true
	})
	subst = local
	var inner []pcond
	for _, c := range pathConds(fd, target) {
		if c.loop {
			continue
		}
		if c.expr != nil && (c.expr.Pos() < rs.Body.Pos() || c.expr.Pos() > rs.Body.End()) {
			// conditions outside the loop, except expansions of boolean locals (positioned at their definition):
			// keep those whose definition lies inside the loop
			continue
		}
		if c.expr == nil && c.clause != nil && (c.clause.Pos() < rs.Body.Pos() || c.clause.Pos() > rs.Body.End()) {
			continue
		}
		inner = append(inner, c)
	}
	out := condSetN(info, inner, subst)
	if out == nil {
		out = []string{}
	}
	return out
}

// calleeClosure lists fi and the functions of its package that it reaches through statically resolved calls
// (depth-bounded): a construct moved into an extracted helper is still found when rules look for it over the
// closure instead of the one function body.
func calleeClosure(w *World, fi *FuncInfo, depth int) []*FuncInfo {
	seen := map[*FuncInfo]bool{fi: true}
	out := []*FuncInfo{fi}
	frontier := []*FuncInfo{fi}
	for d := 0; d < depth; d++ {
		var next []*FuncInfo
		for _, f := range frontier {
			if f.Decl == nil || f.Decl.Body == nil {
				continue
			}
			ast.Inspect(f.Decl.Body, func(x ast.Node) bool {
				// a call, or a function / method value handed to someone (ast.Inspect(file, finder.visit))
				var fn *types.Func
				switch v := x.(type) {
				case *ast.CallExpr:
					fn = calleeOf(f.Pkg.TypesInfo, v)
				case *ast.SelectorExpr:
					fn, _ = f.Pkg.TypesInfo.Uses[v.Sel].(*types.Func)
				case *ast.Ident:
					fn, _ = f.Pkg.TypesInfo.Uses[v].(*types.Func)
				}
				if fn != nil {
					if cf := w.Funcs[fn]; cf != nil && cf.Pkg == fi.Pkg && !seen[cf] {
						seen[cf] = true
						out = append(out, cf)
						next = append(next, cf)
					}
				}
				return true
			})
		}
		frontier = next
	}
	return out
}

// inlineLocals maps every local of fd that is defined exactly once, by `x := e` (one value), never re-assigned, with
// e built from identifiers that are themselves never re-assigned, to the rendering of e (recursively): rules that
// compare rendered expressions then see `gen.SQLTableName(ta.TableName())` whether or not it went through a
// `tableName :=` local first.
func inlineLocals(info *types.Info, fd *ast.FuncDecl) map[types.Object]string {
	return inlineLocalsWith(info, fd, nil)
}

// inlineLocalsWith: inlineLocals on top of a given substitution (the parameters of a helper replaced by what a call
// site passes).
func inlineLocalsWith(info *types.Info, fd *ast.FuncDecl, base map[types.Object]string) map[types.Object]string {
	defs := map[types.Object][]ast.Expr{}
	writes := map[types.Object]int{}
	ast.Inspect(fd.Body, func(x ast.Node) bool {
		switch v := x.(type) {
		case *ast.AssignStmt:
			for i, l := range v.Lhs {
				id := identOf(l)
				if id == nil || id.Name == "_" {
					continue
				}
				o := objOf(info, id)
				if o == nil {
					continue
				}
				writes[o]++
				if v.Tok == token.DEFINE && len(v.Lhs) == len(v.Rhs) && info.Defs[id] != nil {
					defs[o] = append(defs[o], v.Rhs[i])
				}
			}
		case *ast.IncDecStmt:
			if id := identOf(v.X); id != nil {
				writes[objOf(info, id)]++
			}
		case *ast.RangeStmt:
			// `for k, v := range` defines fresh variables, stable within one iteration (like parameters);
			// `for k, v = range` writes existing ones
			if v.Tok != token.DEFINE {
				for _, e := range []ast.Expr{v.Key, v.Value} {
					if id := identOf(e); id != nil {
						writes[objOf(info, id)] += 2
					}
				}
			}
		case *ast.UnaryExpr:
			if v.Op == token.AND {
				if id := identOf(v.X); id != nil {
					writes[objOf(info, id)] += 2 // address taken
				}
			}
		}
		return true
	})
	stable := func(e ast.Expr) bool {
		ok := true
		ast.Inspect(e, func(y ast.Node) bool {
			switch v := y.(type) {
			case *ast.FuncLit:
				ok = false
			case *ast.Ident:
				if o, isVar := objOf(info, v).(*types.Var); isVar && !o.IsField() {
					if w := writes[o]; w > 1 || (w == 1 && len(defs[o]) == 0) {
						ok = false
					}
				}
			}
			return ok
		})
		return ok
	}
	out := map[types.Object]string{}
	for k, v := range base {
		out[k] = v
	}
	for round := 0; round < 4; round++ {
		for o, ds := range defs {
			if writes[o] != 1 || len(ds) != 1 || !stable(ds[0]) {
				continue
			}
			out[o] = render(info, ds[0], out)
		}
	}
	return out
}

// loopFilter returns the canonical conditions under which the loop rs adds an element to the collections it builds
// (reachConds of its accumulation statements), whether all accumulations agree on them, and how many there are.
func loopFilter(info *types.Info, fd *ast.FuncDecl, rs *ast.RangeStmt, subst map[types.Object]string) (conds []string, uniform bool, n int) {
	uniform = true
	for i, a := range accumStmts(info, fd, rs) {
		c := reachConds(info, fd, rs, a.stmt, subst)
		if i == 0 {
			conds = c
		} else if strings.Join(c, "&&") != strings.Join(conds, "&&") {
			uniform = false
		}
		n++
	}
	return
}

// allAccums lists every accumulation statement of fd: appends anywhere, and pre-sized index stores of its range loops.
func allAccums(info *types.Info, fd *ast.FuncDecl) []accum {
	var out []accum
	seen := map[*ast.AssignStmt]bool{}
	for _, as := range appendStmts(info, fd.Body, "") {
		seen[as] = true
		out = append(out, accum{stmt: as, target: es(as.Lhs[0]), values: as.Rhs[0].(*ast.CallExpr).Args[1:]})
	}
	ast.Inspect(fd.Body, func(x ast.Node) bool {
		if rs, ok := x.(*ast.RangeStmt); ok {
			for _, a := range accumStmts(info, fd, rs) {
				if a.sized && !seen[a.stmt] {
					seen[a.stmt] = true
					out = append(out, a)
				}
			}
		}
		return true
	})
	sort.Slice(out, func(i, j int) bool { return out[i].stmt.Pos() < out[j].stmt.Pos() })
	return out
}

// textAccumTarget: st adds text to a string or builder — `x += e`, `x = x + e`, `b.WriteString(e)` / `b.Write*`,
// `fmt.Fprint*(&b, …)` — and returns the rendering of x / b ("" otherwise).
func textAccumTarget(info *types.Info, st ast.Stmt) string {
	switch s := st.(type) {
	case *ast.AssignStmt:
		if len(s.Lhs) != 1 || len(s.Rhs) != 1 {
			return ""
		}
		if s.Tok == token.ADD_ASSIGN {
			return es(s.Lhs[0])
		}
		if be, ok := ast.Unparen(s.Rhs[0]).(*ast.BinaryExpr); ok && s.Tok == token.ASSIGN && be.Op == token.ADD && es(be.X) == es(s.Lhs[0]) {
			return es(s.Lhs[0])
		}
	case *ast.ExprStmt:
		call, ok := s.X.(*ast.CallExpr)
		if !ok {
			return ""
		}
		base := func(e ast.Expr) string {
			e = ast.Unparen(e)
			if u, ok := e.(*ast.UnaryExpr); ok && u.Op == token.AND {
				e = ast.Unparen(u.X)
			}
			return es(e)
		}
		full := fullName(calleeOf(info, call))
		switch {
		case strings.HasPrefix(full, "(*strings.Builder).Write"), strings.HasPrefix(full, "(*bytes.Buffer).Write"):
			return base(call.Fun.(*ast.SelectorExpr).X)
		case strings.HasPrefix(full, "fmt.Fprint") && len(call.Args) > 0:
			if t := info.TypeOf(call.Args[0]); t != nil && (strings.HasSuffix(t.String(), "strings.Builder") || strings.HasSuffix(t.String(), "bytes.Buffer")) {
				return base(call.Args[0])
			}
		}
	}
	return ""
}

// ---------- conditions across one level of helper extraction ----------

// pcondAt is a path condition together with the function it was read in.
type pcondAt struct {
	pcond
	fn *FuncInfo
}

// interConds returns the conditions under which target (a node of cf) is reached when entered from root: when cf is
// root itself, its own path conditions; when cf is a helper that root calls at exactly one site, the conditions of
// that call site in root followed by the helper's own, with a map from the helper's parameters to the variables root
// passes (identifier arguments only). ok is false when cf is neither root nor called exactly once from root.
func interConds(w *World, root, cf *FuncInfo, target ast.Node) (conds []pcondAt, pmap map[types.Object]types.Object, ok bool) {
	pmap = map[types.Object]types.Object{}
	if cf == root {
		for _, c := range pathConds(root.Decl, target) {
			conds = append(conds, pcondAt{c, root})
		}
		return conds, pmap, true
	}
	info := root.Pkg.TypesInfo
	var sites []*ast.CallExpr
	ast.Inspect(root.Decl.Body, func(x ast.Node) bool {
		if call, ok := x.(*ast.CallExpr); ok && calleeOf(info, call) == cf.Obj {
			sites = append(sites, call)
		}
		return true
	})
	if len(sites) != 1 {
		return nil, nil, false
	}
	for _, c := range pathConds(root.Decl, sites[0]) {
		conds = append(conds, pcondAt{c, root})
	}
	k := 0
	for _, f := range cf.Decl.Type.Params.List {
		for _, nm := range f.Names {
			if k < len(sites[0].Args) {
				if id := identOf(sites[0].Args[k]); id != nil {
					pmap[cf.Pkg.TypesInfo.Defs[nm]] = objOf(info, id)
				}
			}
			k++
		}
	}
	for _, c := range pathConds(cf.Decl, target) {
		conds = append(conds, pcondAt{c, cf})
	}
	return conds, pmap, true
}

// accumReach is one accumulation of a loop with the conditions it is reached under, split into those shared by every
// accumulation of the loop (the loop's filter) and the rest (its own).
type accumReach struct {
	accum
	own []string
}

// loopFilterSplit returns the conditions common to all accumulations of the loop (its filter, canonical) and, per
// accumulation, the remaining ones.
func loopFilterSplit(info *types.Info, fd *ast.FuncDecl, rs *ast.RangeStmt, subst map[types.Object]string) (filter []string, accs []accumReach) {
	all := accumStmts(info, fd, rs)
	count := map[string]int{}
	var sets [][]string
	for _, a := range all {
		cs := reachConds(info, fd, rs, a.stmt, subst)
		sets = append(sets, cs)
		for _, c := range cs {
			count[c]++
		}
	}
	for c, n := range count {
		if n == len(all) {
			filter = append(filter, c)
		}
	}
	sort.Strings(filter)
	for i, a := range all {
		var own []string
		for _, c := range sets[i] {
			if count[c] != len(all) {
				own = append(own, c)
			}
		}
		accs = append(accs, accumReach{a, own})
	}
	if filter == nil {
		filter = []string{}
	}
	return
}

// defsThrough returns the defining expressions of obj in cf; when obj is a parameter of the helper cf, what root (the
// function the rule is anchored in) passes for it at its call sites of cf — the defining expressions of the argument
// when it is an identifier of root, the argument itself otherwise. The second result tells in which function each
// expression has to be read.
func defsThrough(w *World, root, cf *FuncInfo, obj types.Object) ([]ast.Expr, []*FuncInfo) {
	var out []ast.Expr
	var where []*FuncInfo
	for _, d := range defsIn(cf.Pkg.TypesInfo, cf.Decl, obj) {
		out = append(out, d)
		where = append(where, cf)
	}
	if len(out) > 0 || cf == root {
		return out, where
	}
	pi := paramIndex(cf, obj)
	if pi < 0 {
		return nil, nil
	}
	info := root.Pkg.TypesInfo
	ast.Inspect(root.Decl.Body, func(x ast.Node) bool {
		call, ok := x.(*ast.CallExpr)
		if !ok || calleeOf(info, call) != cf.Obj || pi >= len(call.Args) {
			return true
		}
		arg := call.Args[pi]
		if id := identOf(arg); id != nil {
			ds := defsIn(info, root.Decl, objOf(info, id))
			if len(ds) > 0 {
				for _, d := range ds {
					out = append(out, d)
					where = append(where, root)
				}
				return true
			}
		}
		out = append(out, arg)
		where = append(where, root)
		return true
	})
	return out, where
}

// ---------- conditions and values through helpers that return (values…, ok) ----------

var (
	theWorld   *World                                     // set by the loader: lets syntax-only helpers resolve callees
	varAliases = map[types.Object]map[types.Object]bool{} // variables holding the same value across a helper boundary
	paramArgs  = map[types.Object]ast.Expr{}              // helper parameter -> the (non-identifier) argument a caller passes
)

func linkVars(a, b types.Object) {
	if a == nil || b == nil || a == b {
		return
	}
	for _, p := range [][2]types.Object{{a, b}, {b, a}} {
		if varAliases[p[0]] == nil {
			varAliases[p[0]] = map[types.Object]bool{}
		}
		varAliases[p[0]][p[1]] = true
	}
}

// aliasClass returns o and every variable linked to it (transitively).
func aliasClass(o types.Object) []types.Object {
	if o == nil {
		return nil
	}
	seen := map[types.Object]bool{o: true}
	out := []types.Object{o}
	for i := 0; i < len(out); i++ {
		for b := range varAliases[out[i]] {
			if !seen[b] {
				seen[b] = true
				out = append(out, b)
			}
		}
	}
	sort.Slice(out, func(i, j int) bool { return out[i].Pos() < out[j].Pos() })
	return out
}

// sameVar: a and b are the same variable, or hold the same value across a helper boundary (result of a helper bound
// by its caller, identifier argument bound to a parameter).
func sameVar(a, b types.Object) bool {
	if a == nil || b == nil {
		return false
	}
	if a == b {
		return true
	}
	for _, x := range aliasClass(a) {
		if x == b {
			return true
		}
	}
	return false
}

// funcContaining returns the declared function whose body contains n.
func funcContaining(n ast.Node) *FuncInfo {
	if theWorld == nil || n == nil {
		return nil
	}
	for _, fi := range theWorld.Funcs {
		if fi.Decl != nil && fi.Decl.Pos() <= n.Pos() && n.End() <= fi.Decl.End() && theWorld.Fset.File(fi.Decl.Pos()) == theWorld.Fset.File(n.Pos()) {
			return fi
		}
	}
	return nil
}

// successConds: the helper h returns, as its j-th result, a boolean "ok". When every return but one gives the constant
// false there, the conditions of that one return (and, if its ok comes from another such helper, that helper's own)
// are exactly what `ok` means to the caller. Aliases between the other results and the variables returned are
// recorded. ok is false when h does not have that shape.
func successConds(h *FuncInfo, j int, depth int) (conds []pcond, results []ast.Expr, ok bool) {
	if h == nil || h.Decl.Body == nil || depth == 0 {
		return nil, nil, false
	}
	info := h.Pkg.TypesInfo
	var success []*ast.ReturnStmt
	bad := false
	ast.Inspect(h.Decl.Body, func(x ast.Node) bool {
		if _, isLit := x.(*ast.FuncLit); isLit {
			return false
		}
		ret, isRet := x.(*ast.ReturnStmt)
		if !isRet {
			return true
		}
		if len(ret.Results) <= j {
			if len(ret.Results) == 1 { // return h2(args)
				success = append(success, ret)
				return true
			}
			bad = true
			return true
		}
		if tv := info.Types[ret.Results[j]]; tv.Value != nil && tv.Value.Kind() == constant.Bool {
			if constant.BoolVal(tv.Value) {
				success = append(success, ret)
			}
			return true
		}
		success = append(success, ret)
		return true
	})
	if bad || len(success) != 1 {
		return nil, nil, false
	}
	ret := success[0]
	conds = pathConds(h.Decl, ret)
	if len(ret.Results) == 1 && j > 0 {
		call, isCall := ast.Unparen(ret.Results[0]).(*ast.CallExpr)
		if !isCall {
			return nil, nil, false
		}
		h2 := theWorld.Funcs[calleeOf(info, call)]
		c2, r2, ok2 := successConds(h2, j, depth-1)
		if !ok2 {
			return nil, nil, false
		}
		bindParams(h, h2, call)
		return append(conds, c2...), r2, true
	}
	if tv := info.Types[ret.Results[j]]; tv.Value == nil {
		// ok is a variable: it must itself be the ok of another helper (or of a comma-ok form, which pathConds keeps)
		id := identOf(ret.Results[j])
		if id == nil {
			return nil, nil, false
		}
		conds = append(conds, expandBoolLocals(h.Decl, []pcond{{expr: id, truth: true}}, 3)...)
	}
	return conds, ret.Results, true
}

// bindParams links the parameters of callee to what caller passes at call: identifier arguments become aliases,
// other arguments are remembered as the parameter's defining expression.
func bindParams(caller, callee *FuncInfo, call *ast.CallExpr) {
	if callee == nil || callee.Decl.Type.Params == nil {
		return
	}
	k := 0
	for _, f := range callee.Decl.Type.Params.List {
		for _, nm := range f.Names {
			if k < len(call.Args) {
				p := callee.Pkg.TypesInfo.Defs[nm]
				if id := identOf(call.Args[k]); id != nil {
					linkVars(p, objOf(caller.Pkg.TypesInfo, id))
				} else {
					paramArgs[p] = call.Args[k]
				}
			}
			k++
		}
	}
}

// throughParam: e is (an identifier of) a helper parameter for which a caller passes a non-identifier argument:
// returns that argument, else e.
func throughParam(info *types.Info, e ast.Expr) ast.Expr {
	if id := identOf(e); id != nil {
		if a, ok := paramArgs[objOf(info, id)]; ok {
			return a
		}
	}
	return e
}

// expandHelperOk: id is bound once, as the j-th left-hand side of `a, b, ok := h(args)` with h a function of the
// module; returns the success conditions of h for that result (successConds), linking the other left-hand sides to
// the variables h returns and h's parameters to the arguments.
func expandHelperOk(fd *ast.FuncDecl, id *ast.Ident) ([]pcond, bool) {
	if theWorld == nil {
		return nil, false
	}
	caller := funcContaining(id)
	if caller == nil || caller.Decl != fd {
		return nil, false
	}
	info := caller.Pkg.TypesInfo
	var as *ast.AssignStmt
	j := -1
	ast.Inspect(fd, func(x ast.Node) bool {
		a, ok := x.(*ast.AssignStmt)
		if !ok || len(a.Rhs) != 1 || len(a.Lhs) < 2 {
			return true
		}
		for i, l := range a.Lhs {
			if lid, ok := l.(*ast.Ident); ok && lid.Name == id.Name && sameDecl(lid, id) {
				as, j = a, i
			}
		}
		return true
	})
	if as == nil {
		return nil, false
	}
	call, ok := ast.Unparen(as.Rhs[0]).(*ast.CallExpr)
	if !ok {
		return nil, false
	}
	h := theWorld.Funcs[calleeOf(info, call)]
	if h == nil || h == caller {
		return nil, false
	}
	if sig, ok := h.Obj.Type().(*types.Signature); !ok || sig.Results().Len() != len(as.Lhs) {
		return nil, false
	} else if b, ok := sig.Results().At(j).Type().Underlying().(*types.Basic); !ok || b.Kind() != types.Bool {
		return nil, false
	}
	conds, results, ok := successConds(h, j, 3)
	if !ok {
		return nil, false
	}
	bindParams(caller, h, call)
	hf := funcContaining(results[0])
	for i, l := range as.Lhs {
		if i == j || i >= len(results) {
			continue
		}
		lid := identOf(l)
		rid := identOf(results[i])
		if lid != nil && rid != nil && hf != nil && lid.Name != "_" {
			linkVars(objOf(info, lid), objOf(hf.Pkg.TypesInfo, rid))
		}
	}
	return conds, true
}

// defsThroughAny: the defining expressions of obj in cf or, when obj is a parameter of cf, the arguments passed for
// it at every call site of cf in the module (each read in its caller).
func defsThroughAny(w *World, cf *FuncInfo, obj types.Object) ([]ast.Expr, []*FuncInfo) {
	var out []ast.Expr
	var where []*FuncInfo
	for _, d := range defsIn(cf.Pkg.TypesInfo, cf.Decl, obj) {
		out = append(out, d)
		where = append(where, cf)
	}
	if len(out) > 0 {
		return out, where
	}
	pi := paramIndex(cf, obj)
	if pi < 0 {
		return nil, nil
	}
	for _, caller := range sortedFuncs(w) {
		if caller.Decl.Body == nil {
			continue
		}
		info := caller.Pkg.TypesInfo
		ast.Inspect(caller.Decl.Body, func(x ast.Node) bool {
			call, ok := x.(*ast.CallExpr)
			if ok && calleeOf(info, call) == cf.Obj && pi < len(call.Args) {
				out = append(out, call.Args[pi])
				where = append(where, caller)
			}
			return true
		})
	}
	return out, where
}

// mapHelper recognises a function that applies a function parameter to every element of a slice parameter, in order,
// and returns the results (`out := make([]R, len(items)); for i, it := range items { out[i] = f(it) }; return out`,
// or the unconditional append form). It returns the indexes of the slice and of the function parameter.
func mapHelper(w *World, h *FuncInfo) (itemsIdx, fnIdx int, ok bool) {
	if h == nil || h.Decl.Body == nil {
		return 0, 0, false
	}
	info := h.Pkg.TypesInfo
	var loops []*ast.RangeStmt
	ast.Inspect(h.Decl.Body, func(x ast.Node) bool {
		if rs, isR := x.(*ast.RangeStmt); isR {
			loops = append(loops, rs)
		}
		return true
	})
	if len(loops) != 1 {
		return 0, 0, false
	}
	rs := loops[0]
	itemsID := identOf(rs.X)
	valID := identOf(rs.Value)
	if itemsID == nil || valID == nil {
		return 0, 0, false
	}
	itemsIdx = paramIndex(h, objOf(info, itemsID))
	if itemsIdx < 0 {
		return 0, 0, false
	}
	accs := accumStmts(info, h.Decl, rs)
	if len(accs) != 1 || len(accs[0].values) != 1 || len(rs.Body.List) != 1 {
		return 0, 0, false
	}
	if len(reachConds(info, h.Decl, rs, accs[0].stmt, nil)) != 0 {
		return 0, 0, false
	}
	call, isCall := ast.Unparen(accs[0].values[0]).(*ast.CallExpr)
	if !isCall {
		return 0, 0, false
	}
	switch len(call.Args) {
	case 1:
		if identOf(call.Args[0]) == nil || objOf(info, identOf(call.Args[0])) != objOf(info, valID) {
			return 0, 0, false
		}
	case 2: // f(index, item)
		keyID := identOf(rs.Key)
		if keyID == nil || identOf(call.Args[0]) == nil || objOf(info, identOf(call.Args[0])) != objOf(info, keyID) ||
			identOf(call.Args[1]) == nil || objOf(info, identOf(call.Args[1])) != objOf(info, valID) {
			return 0, 0, false
		}
	default:
		return 0, 0, false
	}
	fid := identOf(call.Fun)
	if fid == nil {
		return 0, 0, false
	}
	fnIdx = paramIndex(h, objOf(info, fid))
	if fnIdx < 0 {
		return 0, 0, false
	}
	// the accumulated slice is what is returned
	returned := false
	ast.Inspect(h.Decl.Body, func(x ast.Node) bool {
		if ret, isRet := x.(*ast.ReturnStmt); isRet && len(ret.Results) == 1 && es(ret.Results[0]) == accs[0].target {
			returned = true
		}
		return true
	})
	return itemsIdx, fnIdx, returned
}


// vRange is a pass over a collection written as a call of a map helper with a callback: `mapTo(xs, func(i, x) R {…})`.
// key and val are the callback's parameters (key nil when the callback takes the item only), ret its single
// unconditional return value (nil when the callback has another shape).
type vRange struct {
	call     *ast.CallExpr
	X        ast.Expr
	key, val types.Object
	lit      *ast.FuncLit
	ret      ast.Expr
}

func virtualRanges(w *World, fi *FuncInfo) []vRange {
	var out []vRange
	if fi == nil || fi.Decl.Body == nil {
		return nil
	}
	info := fi.Pkg.TypesInfo
	ast.Inspect(fi.Decl.Body, func(x ast.Node) bool {
		call, ok := x.(*ast.CallExpr)
		if !ok {
			return true
		}
		h := w.Funcs[calleeOf(info, call)]
		if h == nil {
			return true
		}
		ii, fi2, ok := mapHelper(w, h)
		if !ok || ii >= len(call.Args) || fi2 >= len(call.Args) {
			return true
		}
		lit, isLit := ast.Unparen(call.Args[fi2]).(*ast.FuncLit)
		if !isLit {
			return true
		}
		var ps []types.Object
		for _, f := range lit.Type.Params.List {
			for _, nm := range f.Names {
				ps = append(ps, info.Defs[nm])
			}
		}
		vr := vRange{call: call, X: call.Args[ii], lit: lit}
		switch len(ps) {
		case 1:
			vr.val = ps[0]
		case 2:
			vr.key, vr.val = ps[0], ps[1]
		default:
			return true
		}
		if len(lit.Body.List) == 1 {
			if ret, ok := lit.Body.List[0].(*ast.ReturnStmt); ok && len(ret.Results) == 1 {
				vr.ret = ret.Results[0]
			}
		}
		out = append(out, vr)
		return true
	})
	return out
}

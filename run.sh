#!/bin/bash
# usage: ./run.sh Cnn quick|thorough   |   ./run.sh explain <replay.json>   |   ./run.sh build
set -u
HERE="$(cd "$(dirname "$0")" && pwd)"
export GOFLAGS=-mod=mod GOPROXY=off GOSUMDB=off GOTOOLCHAIN=local
unset GOWORK
REPO="${VERIF_REPO:-/repo}"
BIN="$HERE/bin/gmverif"

build() {
  mkdir -p "$HERE/bin"
  # rebuild when any checker source is newer than the binary
  if [ ! -x "$BIN" ] || [ -n "$(find "$HERE/checker" -name '*.go' -newer "$BIN" -print -quit 2>/dev/null)" ] || [ "$HERE/checker/go.mod" -nt "$BIN" ]; then
    (cd "$HERE/checker" && go build -o "$BIN.tmp.$$" . && mv "$BIN.tmp.$$" "$BIN") || { echo "UNDECIDED reason=checker build failed"; exit 2; }
  fi
}

case "${1:-}" in
  build) build; exit 0 ;;
  explain) build; exec "$BIN" explain "$2" ;;
  "") echo "usage: $0 Cnn quick|thorough"; exit 2 ;;
esac
PROP="$1"; TIER="${2:-${VERIF_TIER:-quick}}"
build
"$BIN" check -prop "$PROP" -tier "$TIER" -repo "$REPO" -verif "$HERE"
rc=$?
if [ "$TIER" = "thorough" ] && [ $rc -eq 0 ]; then
  # sensitivity run: evidence only, never changes the verdict
  VERIF_REPO="$REPO" python3 "$HERE/tools/sensitivity.py" "$PROP" || true
fi
exit $rc
